#!/venv/bin/python
"""Run the repository's pinned test suite (BASELINE.json command) and compare with its stable_pass list.
usage: tools/repo_tests.py [repo_dir]   (default /repo)"""
import json, os, subprocess, sys, tempfile, xml.etree.ElementTree as ET
repo = sys.argv[1] if len(sys.argv) > 1 else "/repo"
base = json.load(open("/root/.vp/BASELINE.json"))
out = tempfile.mktemp(suffix=".xml", dir="/tmp")
env = dict(os.environ, PYTHONPATH=os.path.join(repo, "src"))
env.pop("ANYIO_VERIF", None)
subprocess.run(["/venv/bin/python", "-m", "pytest", "-q", "-p", "no:cacheprovider", "--timeout=900",
                "--continue-on-collection-errors", f"--junitxml={out}"], cwd=repo, env=env,
               stdout=subprocess.DEVNULL, stderr=subprocess.DEVNULL)
passed = set()
for tc in ET.parse(out).getroot().iter("testcase"):
    if not any(ch.tag in ("failure", "error", "skipped") for ch in tc):
        passed.add(f"{tc.get('classname')}::{tc.get('name')}")
os.unlink(out)
want = set(base["stable_pass"])
missing = sorted(want - passed)
print(f"stable_pass {len(want)}; passed now {len(passed)}; stable tests not passing now: {len(missing)}")
for m in missing[:40]:
    print("  ", m)
sys.exit(1 if missing else 0)
