#!/venv/bin/python
"""Run checks against the seeded changes in /verif/seeded/<name>/ (patch.diff, demo.py, meta.json).

For each: copy /repo/src to a scratch dir under /tmp, apply the patch there, confirm the demo fails with and
passes without the change, run the checks named in meta.json["checks"] (default: the property's own check)
against the patched copy, report DETECTED/missed.  Never touches /repo.
usage: tools/seeded.py [name ...] [--scale X] [--tier quick] [--no-demo]
"""
import json, os, shutil, subprocess, sys, tempfile, time
VERIF = os.path.dirname(os.path.dirname(os.path.abspath(__file__)))


def main():
    args = sys.argv[1:]
    scale, tier, names, demo = "1", "quick", [], True
    while args:
        a = args.pop(0)
        if a == "--scale": scale = args.pop(0)
        elif a == "--tier": tier = args.pop(0)
        elif a == "--no-demo": demo = False
        else: names.append(a)
    sdir = os.path.join(VERIF, "seeded")
    if not names:
        names = sorted(d for d in os.listdir(sdir) if os.path.isdir(os.path.join(sdir, d)))
    rows = []
    for name in names:
        d = os.path.join(sdir, name)
        meta = json.load(open(os.path.join(d, "meta.json")))
        tmp = tempfile.mkdtemp(prefix="vfseed-")
        try:
            shutil.copytree("/repo/src", os.path.join(tmp, "src"), ignore=shutil.ignore_patterns("__pycache__"))
            p = subprocess.run(["patch", "-p1", "-s", "-d", tmp, "-i", os.path.join(d, "patch.diff")],
                               capture_output=True, text=True)
            if p.returncode != 0:
                rows.append((name, "PATCH-FAILS", p.stdout[-200:]))
                continue
            dres = ""
            if demo:
                env = dict(os.environ, PYTHONPATH=os.path.join(tmp, "src"))
                w = subprocess.run(["/venv/bin/python", os.path.join(d, "demo.py")], env=env, capture_output=True, timeout=300)
                env2 = dict(os.environ, PYTHONPATH="/repo/src")
                wo = subprocess.run(["/venv/bin/python", os.path.join(d, "demo.py")], env=env2, capture_output=True, timeout=300)
                dres = f"demo with={w.returncode} without={wo.returncode}"
            env = dict(os.environ, VF_ANYIO_SRC=os.path.join(tmp, "src"), VERIF_SCALE=scale, VERIF_SHRINK_S="0",
                       VF_NO_EVIDENCE="1")
            t = time.time()
            hits = []
            for c in meta.get("checks", [meta["property"]]):
                r = subprocess.run([os.path.join(VERIF, "check"), c, tier], env=env, capture_output=True, text=True)
                rules = [l.strip() for l in r.stdout.splitlines() if l.startswith("  rule=")]
                hits.append((c, r.returncode, rules[:3]))
            det = any(rc == 1 for _, rc, _ in hits)
            verdict = "DETECTED" if det else "missed"
            if not det and meta.get("expected"):
                # recorded in meta.json with the reason (see DESIGN 10): the change is outside the property's stated
                # domain, or its only symptom lies inside the signature of a known finding
                verdict = "not-decided(" + meta["expected"] + ")"
            rows.append((name, verdict, f"{dres} {round(time.time()-t)}s {hits}"))
        finally:
            shutil.rmtree(tmp, ignore_errors=True)
    for r in rows:
        print("%-12s %-10s %s" % (r[0], r[1], r[2][:400]))


if __name__ == "__main__":
    main()
