#!/venv/bin/python
"""Sensitivity protocol (DESIGN.md 2.8): apply each hand-written mutant to a scratch copy of
/repo/src (under /tmp, removed afterwards), run the property's check against the copy and
report whether a violation was found.  Never touches /repo.

usage: tools/mutants.py [ID ...] [--tier quick] [--scale 0.5] [--only name]
Mutants live in /verif/mutants/<ID>.json: [{"name","file","old","new","note"}, ...]
"""
import json, os, shutil, subprocess, sys, tempfile, time

VERIF = os.path.dirname(os.path.dirname(os.path.abspath(__file__)))


def main():
    args = sys.argv[1:]
    tier, scale, only = "quick", "1", None
    ids = []
    while args:
        a = args.pop(0)
        if a == "--tier": tier = args.pop(0)
        elif a == "--scale": scale = args.pop(0)
        elif a == "--only": only = args.pop(0)
        else: ids.append(a.upper())
    if not ids:
        ids = sorted(f[:-5] for f in os.listdir(os.path.join(VERIF, "mutants")) if f.endswith(".json"))
    summary = []
    for pid in ids:
        with open(os.path.join(VERIF, "mutants", pid + ".json")) as f:
            muts = json.load(f)
        for m in muts:
            if only and m["name"] != only:
                continue
            tmp = tempfile.mkdtemp(prefix="vfmut-")
            try:
                src = os.path.join(tmp, "src")
                shutil.copytree("/repo/src", src, ignore=shutil.ignore_patterns("__pycache__"))
                path = os.path.join(src, m["file"])
                text = open(path).read()
                if text.count(m["old"]) != 1:
                    summary.append((pid, m["name"], "PATCH-DOES-NOT-APPLY(%d)" % text.count(m["old"]), 0))
                    continue
                text = text.replace(m["old"], m["new"])
                bad = False
                for o, n in m.get("pre", []):
                    if text.count(o) != 1:
                        bad = True
                    text = text.replace(o, n)
                if bad:
                    summary.append((pid, m["name"], "PRE-PATCH-DOES-NOT-APPLY", 0))
                    continue
                open(path, "w").write(text)
                env = dict(os.environ, VF_ANYIO_SRC=src, VERIF_SCALE=scale, VERIF_SHRINK_S="0",
                           VF_NO_EVIDENCE="1")
                t = time.time()
                checks = m.get("checks", [pid])
                res = []
                for c in checks:
                    p = subprocess.run([os.path.join(VERIF, "check"), c, tier], env=env,
                                       capture_output=True, text=True)
                    v = [l for l in p.stdout.splitlines() if l.startswith("VIOLATION") or l.startswith("  rule=")]
                    res.append((c, p.returncode, v[:4]))
                    if p.returncode == 2:
                        print(p.stdout[-2000:], p.stderr[-2000:])
                det = any(rc == 1 for _, rc, _ in res)
                summary.append((pid, m["name"], "DETECTED" if det else "missed", round(time.time() - t, 1)))
                for c, rc, v in res:
                    print(f"[{pid}/{m['name']}] check {c} rc={rc}")
                    for l in v:
                        print("    ", l[:300])
            finally:
                shutil.rmtree(tmp, ignore_errors=True)
    print("\nSUMMARY")
    for row in summary:
        print("  %-5s %-40s %-10s %ss" % row)
    return 0


if __name__ == "__main__":
    sys.exit(main())
