#!/venv/bin/python
"""Regenerate /verif/MANIFEST.json from the property modules that exist (keeps it valid at all times)."""
import importlib, json, os, sys
VERIF = os.path.dirname(os.path.dirname(os.path.abspath(__file__)))
sys.path[:0] = ["/repo/src", VERIF]
props = [json.loads(l) for l in open(os.path.join(VERIF, "properties.jsonl"))]
checks, na = [], []
NA_REASONS = {}
nap = os.path.join(VERIF, "not_applicable.json")
if os.path.exists(nap):
    NA_REASONS = json.load(open(nap))
for p in props:
    pid = p["id"]
    modpath = os.path.join(VERIF, "vf", "props", pid.lower() + ".py")
    if not os.path.exists(modpath) or pid in NA_REASONS:
        na.append({"property_id": pid, "reason": NA_REASONS.get(pid, "check not built yet (build in progress; design in DESIGN.md section 3)")})
        continue
    m = importlib.import_module("vf.props." + pid.lower())
    c = {
        "property_id": pid,
        "quick_cmd": f"./check {pid} quick",
        "thorough_cmd": f"./check {pid} thorough",
        "evidence_file": f"evidence/{pid}.json",
        "replay_cmd_template": f"./check {pid} quick --replay {{path}}",
        "engine": "vf",
        "level_claimed": {"category": getattr(m, "LEVEL", "exploration"), "text": m.LEVEL_TEXT,
                          "design_ref": "DESIGN.md section " + m.DESIGN_REF},
        "level_note": m.LEVEL_NOTE,
        "technique": m.TECHNIQUE,
    }
    checks.append(c)
hooks_commits = []
hp = os.path.join(VERIF, "hooks.json")
if os.path.exists(hp):
    hooks_commits = json.load(open(hp))["source_commits"]
man = {
    "version": 1,
    "setup_cmd": "./setup.sh",
    "hooks": {
        "guard": "ANYIO_VERIF",
        "enable": "no hooks in the anyio sources: checks put /repo/src on PYTHONPATH (pure Python, nothing to build) and observe through public API and harness-owned event loops; ANYIO_VERIF=1 is exported by ./check but read by nothing in /repo",
        "baseline_off_cmd": "cd /repo && /venv/bin/python -m pytest -ra -q -p no:cacheprovider --timeout=900 --continue-on-collection-errors",
        "source_commits": hooks_commits,
        "add_only": True,
    },
    "engines": [{"name": "vf", "path": "vf/", "serves_properties": [c["property_id"] for c in checks],
                 "kind_free_text": "property-based testing: Hypothesis-generated programs/histories/inputs run against the real anyio code on harness-owned event loops (virtual-time VLoop, uvloop ticker, delayed-threadsafe RLoop), judged by reference models, invariants, differential and round-trip oracles; collect-then-shrink runner"}],
    "checks": checks,
    "not_applicable": na,
    "notes": "All checks: ./check <ID> <quick|thorough> [--replay FILE]; exit 0 held / 1 VIOLATION / 2 harness error. VERIF_SEED selects the Hypothesis seeds. Known findings: known_findings.json. Design: DESIGN.md.",
}
json.dump(man, open(os.path.join(VERIF, "MANIFEST.json"), "w"), indent=1)
