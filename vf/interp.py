"""Program interpreter + reference semantics ("mirror") for the cancellation / task-group family (C01-C05, C07).

Program = {"config": S|E|U, "main": block, "ext": [[cycle, action...]]}
block = [stmt...]; stmt (JSON lists):
 ["yield", k] | ["sleep", d] | ["wait", ev] | ["set", ev] | ["forever"]
 ["scope", name, shield, rel_deadline|None, body(, True)]  with CancelScope(...)  (True: cancel() before entering)
 ["cancel", name]                                         scope / group / child handle known by that name
 ["shield", name, bool]                                   host task toggles the shield of one of its own active scopes
 ["group", name, body]                                    async with create_task_group()
 ["spawn", group, child, how, body]                       how: "soon" | "create"
 ["start", group, child, spec]                            await tg.start(child_fn) with a scripted child
 ["catch", what, body, handler, shielded, after]          what: "cancel"|"any"; after: reraise|swallow|boom|wrap
 ["raise", n] | ["return", v] | ["probe"] | ["native", child]     (Task.cancel() of another child's task)
 ["ntimeout", d, body]                                    async with asyncio.timeout(d)
 ["ntg", d|None, body]                                    async with asyncio.TaskGroup() + a child failing at t0+d
ext action: ["cancel", name] | ["set", ev] | ["native", child]
Violation rule ids are prefixed with the owning property ("c01:" ... "c07:").
"""
from __future__ import annotations

import asyncio
import math

import anyio
from anyio import CancelScope, Event, TaskHandle, create_task_group

from .loops import BudgetExceeded, Deadlock, run_on
from .runner import Outcome

B_LATENCY = 4          # "small bounded number of cycles" (measured on the pinned tree: 0..2)
GUARD_CYCLES = 40      # every indefinite wait sits in a guard scope cancelled after this many cycles


class Boom(Exception):
    def __init__(self, n):
        super().__init__(n)
        self.n = n

    def __repr__(self):
        return f"Boom({self.n})"


def is_anyio_cancel(exc) -> bool:
    return (isinstance(exc, asyncio.CancelledError) and bool(exc.args) and isinstance(exc.args[0], str)
            and exc.args[0].startswith("Cancelled via cancel scope"))


def leaves(exc):
    if isinstance(exc, BaseExceptionGroup):
        out = []
        for e in exc.exceptions:
            out += leaves(e)
        return out
    return [exc]


class Mirror:
    """Reference view of one real cancel scope: public attributes only."""

    __slots__ = ("real", "parent", "name", "host", "kind", "entered_cancelling", "exc", "pred", "active")

    def __init__(self, real, parent, name, host=None, kind="scope"):
        self.real, self.parent, self.name, self.host, self.kind = real, parent, name, host, kind
        self.exc = None
        self.pred = None
        self.active = True

    def eff(self) -> bool:
        m = self
        while m is not None:
            if m.real.cancel_called:
                return True
            if m.real.shield:
                return False
            m = m.parent
        return False

    def parent_visible(self) -> bool:
        return self.parent is not None and not self.real.shield and self.parent.eff()

    def any_cancelled_above(self) -> bool:
        m = self
        while m is not None:
            if m.real.cancel_called:
                return True
            m = m.parent
        return False


class GroupInfo:
    def __init__(self, name, tg, mirror):
        self.name, self.tg, self.mirror = name, tg, mirror
        self.children = {}       # child name -> ChildInfo
        self.exited = False
        self.exit_cycle = None


class ChildInfo:
    def __init__(self, name, group, how):
        self.name, self.group, self.how = name, group, how
        self.handle = None
        self.task = None
        self.ended = None          # ("return", v) | ("raise", exc) | ("cancelled", exc)
        self.end_cycle = None
        self.steps_after_exit = 0
        self.started_value = None  # for start(): value passed to started()
        self.started_called = 0
        self.start_site = None     # dict describing what start() did at the call site
        self.native_cancelled = False
        self.native_exempt = False


class World:
    def __init__(self, loop, case, out, stats):
        self.loop, self.case, self.out, self.stats = loop, case, out, stats
        self.scopes = {}          # name -> Mirror of an active named scope / group scope
        self.handles = {}         # child name -> TaskHandle
        self.groups = {}
        self.events = {}
        self.cur = {}             # task -> current innermost Mirror
        self.since_eff = {}       # task -> (cycle, time) since continuously effectively cancelled
        self.last_eff = {}
        self.open_ops = {}        # task -> (kind, enter_cycle)
        self.guards = []          # (expiry cycle, CancelScope)
        self.children = {}        # child name -> ChildInfo
        self.native_targets = set()
        self.unclaimed_after_timeout = set()
        self.native_count = {}         # task -> number of native Task.cancel() calls issued by the harness
        self.tainted = set()           # tasks whose count is no longer attributable (CPython TaskGroup quirk)
        self.latencies = []
        self.finished = False
        self.ext = sorted((e for e in case.get("ext", [])), key=lambda e: e[0])
        self.virtual = hasattr(loop, "advance")
        self.pending_c02 = []
        self.harness_cancelled = set()
        self.prestart_failures = []
        self.handler_intervals = {}
        self.shield_on_cycle = {}      # id(mirror) -> cycle at which its shield was switched on
        self.native_stack = {}     # task -> list of callables telling whether that native construct has fired
        self.start_wait_cut = set()    # tasks natively cancelled while start() was already waiting for its child

    # ---- helpers
    def cycle(self):
        return self.loop.cycle

    def bad(self, rule, sig="", detail=""):
        self.out.bad(rule, sig, detail)

    def ev(self, name):
        e = self.events.get(name)
        if e is None:
            e = self.events[name] = Event()
        return e

    def monitor(self, lp):
        c = lp.cycle
        # external actions due at this cycle
        while self.ext and self.ext[0][0] <= c and not self.finished:
            act = self.ext.pop(0)[1:]
            self.do_external(act)
        # guards
        for g in list(self.guards):
            if g[0] <= c:
                self.guards.remove(g)
                g[1].cancel()
        # effective-cancellation bookkeeping per task
        for t, ms in list(self.cur.items()):
            if t.done():
                self.cur.pop(t, None)
                self.since_eff.pop(t, None)
                self.open_ops.pop(t, None)
                continue
            if ms is not None and ms.eff():
                self.last_eff[t] = c
                if self.since_eff.get(t) is None:
                    self.since_eff[t] = (c, lp.time())
            else:
                self.since_eff[t] = None
            op = self.open_ops.get(t)
            se = self.since_eff.get(t)
            if op is not None and se is not None and op[0] != "start":
                start = max(op[1], se[0])
                if c - start > B_LATENCY + 2 and not op[2]:
                    op[2] = True
                    self.bad("c03:stuck-in-cancelled-scope", op[0],
                             f"task blocked in {op[0]} since cycle {op[1]}, scope effectively cancelled since "
                             f"{se[0]}, still blocked at cycle {c}")

    def on_idle(self, lp):
        """Nothing can happen any more: fire the earliest guard now instead of waiting for its cycle."""
        if self.guards and not self.finished:
            self.guards.sort(key=lambda g: g[0])
            g = self.guards.pop(0)
            g[1].cancel()
            return True
        return False

    def do_external(self, act):
        k = act[0]
        if k == "cancel":
            self.cancel_name(act[1], "external")
        elif k == "set":
            self.ev(act[1]).set()
        elif k == "native":
            ci = self.children.get(act[1])
            if ci is not None and ci.task is not None and not ci.task.done() and ci.ended is None \
                    and not ci.native_cancelled:
                ci.native_cancelled = True
                self.native_targets.add(ci.task)
                self.native_count[ci.task] = self.native_count.get(ci.task, 0) + 1
                self.stats["native_cancel"] += 1
                # undecided by the statement (AnyIO documents treating such chained cancellations as its own): the
                # native cancellation lands while the task handles an AnyIO cancellation, or while an AnyIO
                # cancellation travels through the __aexit__ of a group the task hosts
                ci.native_exempt = self.in_cancel_handler_at(ci.task, self.loop.time()) or any(
                    gi.mirror.host is ci.task and not gi.exited and getattr(gi, "body_exc", None) is not None
                    and any(is_anyio_cancel(e) for e in leaves(gi.body_exc)) for gi in self.groups.values())
                op = self.open_ops.get(ci.task)
                cm = self.cur.get(ci.task)
                if op is not None and op[0] == "start" and cm is not None and cm.eff():
                    # the caller of start() has already been cancelled and start() is waiting (shielded) for the
                    # child to finish: a native Task.cancel() cuts through any shield, so "the child has terminated
                    # before start() re-raises" cannot be demanded here (the statement speaks of cancelled scopes)
                    self.start_wait_cut.add(ci.task)
                waiter = getattr(ci.task, "_fut_waiter", None)
                if waiter is not None and waiter.done():
                    # asyncio itself merges this request into the cancellation already under way (the task wakes up
                    # with that one CancelledError, carrying the first message): no native exception will exist
                    ci.native_exempt = True
                if any(gi.mirror.host is ci.task and not gi.exited and getattr(gi, "body_done_cycle", None) is not None
                       for gi in self.groups.values()):
                    self.stats["native_cancel_at_group_join"] += 1
                ci.task.cancel()

    def cancel_name(self, name, origin):
        m = self.scopes.get(name)
        if m is not None and m.active:
            if not m.real.cancel_called:
                self.stats["cancel_" + origin] += 1
            self.harness_cancelled.add(name)
            m.real.cancel()
            return
        h = self.handles.get(name)
        if h is not None:
            self.stats["cancel_handle"] += 1
            h.cancel()

    # ---- blocking operations
    async def op(self, kind, ms, coro_fn, excusable=False, duration=None):
        task = asyncio.current_task()
        self.cur[task] = ms
        enter, enter_t = self.cycle(), self.loop.time()
        eff_enter = ms.eff()
        if eff_enter:
            self.stats["op_entered_cancelled"] += 1
        self.open_ops[task] = [kind, enter, False]
        try:
            await coro_fn()
        except asyncio.CancelledError as e:
            now = self.cycle()
            if is_anyio_cancel(e) and kind != "start":
                if not ms.eff() and self.last_eff.get(task, -10) < now - 2 and not self.shield_just_raised(ms, now):
                    self.bad("c04:interrupted-outside-cancelled-subtree", kind,
                             f"{kind} in scope {ms.name} raised an AnyIO cancellation at cycle {now} although the "
                             f"scope is not effectively cancelled (last seen cancelled at "
                             f"{self.last_eff.get(task)})")
                se = self.since_eff.get(task)
                if eff_enter:
                    start = enter
                elif se is None:
                    start = now      # became effectively cancelled after this cycle's monitor pass: latency < 1 cycle
                else:
                    start = max(enter, se[0])
                lat = now - start
                self.latencies.append(lat)
                if now > enter:
                    self.stats["interrupted_after_blocking"] += 1
                if lat > B_LATENCY:
                    self.bad("c03:latency", kind, f"{kind} interrupted {lat} cycles after cancellation took effect")
            raise
        else:
            se = self.since_eff.get(task)
            if kind == "wait" and eff_enter and ms.eff() and not excusable and self.cycle() - enter <= B_LATENCY:
                pass     # the event was set before the (bounded-latency) interruption landed: allowed
            elif eff_enter and ms.eff() and not excusable and kind in ("yield", "sleep", "forever", "wait"):
                self.bad("c03:completed-in-cancelled-scope", kind,
                         f"{kind} entered at cycle {enter} in effectively cancelled scope {ms.name} completed normally")
            elif kind == "sleep" and duration and self.virtual and se is not None and se[1] < self.loop.time() \
                    and se[1] >= enter_t and ms.eff():
                self.bad("c03:completed-in-cancelled-scope", "sleep-late",
                         f"sleep({duration}) started t={enter_t} completed at t={self.loop.time()} although the scope "
                         f"was effectively cancelled since t={se[1]}")
        finally:
            self.open_ops.pop(task, None)

    def shield_just_raised(self, ms, now):
        """A shield switched on within the last two cycles somewhere up the chain: a cancellation that was already
        in flight may still land (grace window of the reference semantics)."""
        m = ms
        while m is not None:
            if now - self.shield_on_cycle.get(id(m), -10) <= 2:
                return True
            m = m.parent
        return False

    def guard(self):
        sc = CancelScope()
        self.guards.append((self.cycle() + GUARD_CYCLES, sc))
        return sc

    # ---- statement execution
    async def block(self, body, ms):
        for st in body:
            await self.stmt(st, ms)

    async def stmt(self, st, ms):
        k = st[0]
        task = asyncio.current_task()
        self.cur[task] = ms
        ci = self.task_child.get(task)
        if ci is not None and ci.group.exited:
            ci.steps_after_exit += 1
        if k == "yield":
            for _ in range(st[1]):
                await self.op("yield", ms, anyio.lowlevel.checkpoint)
        elif k == "sleep":
            d = st[1]
            if not self.virtual:
                for _ in range(max(1, int(d))):
                    await self.op("yield", ms, anyio.lowlevel.checkpoint)
            else:
                await self.op("sleep", ms, lambda: anyio.sleep(d), duration=d)
        elif k in ("wait", "forever"):
            g = self.guard()
            with g:
                gm = Mirror(g, ms, "guard", task, "guard")
                self.cur[task] = gm
                if k == "wait":
                    e = self.ev(st[1])
                    await self.op("wait", gm, e.wait, excusable=e.is_set())
                else:
                    await self.op("forever", gm, anyio.sleep_forever)
            self.cur[task] = ms
            self.guards[:] = [x for x in self.guards if x[1] is not g]
            if g.cancelled_caught:
                self.stats["guard_fired"] += 1
        elif k == "set":
            self.ev(st[1]).set()
        elif k == "cancel":
            m = self.scopes.get(st[1])
            origin = "self" if (m is not None and m.host is task) else "sibling"
            self.cancel_name(st[1], origin)
        elif k == "shield":
            m = self.scopes.get(st[1])
            if m is not None and m.active and m.host is task and m.kind in ("scope", "group"):
                m.real.shield = st[2]
                if st[2]:
                    self.shield_on_cycle[id(m)] = self.cycle()
                self.stats["shield_toggled"] += 1
        elif k == "setdl":
            m = self.scopes.get(st[1])
            if m is not None and m.active and m.kind == "scope" and self.virtual:
                m.real.deadline = self.loop.time() + st[2]
                self.stats["deadline_reassigned"] += 1
        elif k == "raise":
            raise Boom(st[1])
        elif k == "return":
            raise _Return(st[1])
        elif k == "probe":
            anyio.get_current_task().has_pending_cancellation()
        elif k == "native":
            tci = self.children.get(st[1])
            if tci is not None and tci.task is not task:
                self.do_external(["native", st[1]])
        elif k == "scope":
            await self.run_scope(st, ms)
        elif k == "group":
            await self.run_group(st, ms)
        elif k == "spawn":
            self.spawn(st, ms)
        elif k == "start":
            await self.run_start(st, ms)
        elif k == "catch":
            await self.run_catch(st, ms)
        elif k == "ntimeout":
            await self.run_ntimeout(st, ms)
        elif k == "ntg":
            await self.run_ntg(st, ms)
        else:
            raise AssertionError(k)

    # ---- cancel scopes (C03/C04/C05)
    def predict_exit(self, m, exc):
        """What must leave the scope given what arrives: (absorbed_all, remaining leaves or None)."""
        absorbs = m.real.cancel_called and not m.parent_visible()
        lv = leaves(exc)
        for e in lv:
            # a native CancelledError raised while an AnyIO cancellation was being handled: AnyIO documents that it
            # looks at __context__ for such re-raised cancellations; the statement does not decide this case
            if isinstance(e, asyncio.CancelledError) and not is_anyio_cancel(e):
                c = e.__context__
                while isinstance(c, asyncio.CancelledError):
                    if is_anyio_cancel(c):
                        return None
                    c = c.__context__
        canc = [e for e in lv if is_anyio_cancel(e)]
        rest = [e for e in lv if not is_anyio_cancel(e)]
        if absorbs and canc:
            return True, rest
        return False, lv

    def check_exit(self, m, arrived, left, caught_flag, what):
        """C04(2,3): compare what left the scope with the prediction made right before __exit__."""
        if arrived is None:
            if left is not None:
                self.bad("c04:exception-invented-at-exit", what, f"{m.name}: nothing arrived, {left!r} left")
            if caught_flag:
                self.bad("c04:cancelled-caught-without-exception", what, f"{m.name}")
            return
        if m.pred is None:
            return
        absorbed, rest = m.pred
        exp_ids = sorted(id(e) for e in rest)
        got_ids = sorted(id(e) for e in leaves(left)) if left is not None else []
        if absorbed:
            self.stats["absorbed"] += 1
            if exp_ids != got_ids:
                self.bad("c04:absorb-mismatch", what,
                         f"{m.name}: arrived {arrived!r}; expected the AnyIO cancellation to be absorbed and "
                         f"{[repr(e) for e in rest]} to pass, but {left!r} left")
            if not caught_flag:
                self.bad("c04:cancelled-caught-false-after-absorb", what, f"{m.name}")
        else:
            if any(is_anyio_cancel(e) for e in leaves(arrived)):
                self.stats["propagated"] += 1
            if exp_ids != got_ids:
                self.bad("c04:should-pass-through", what,
                         f"{m.name}: arrived {arrived!r} must pass unchanged (cancel_called="
                         f"{m.real.cancel_called}, parent visible={m.parent_visible()}), but {left!r} left")
            if caught_flag:
                self.bad("c04:cancelled-caught-true-without-absorb", what, f"{m.name}")

    def timer_check(self, m, what):
        """C05(3): once a scope has been left no deadline timer of it may stay armed."""
        if hasattr(self.loop, "live_timers"):
            for h in self.loop.live_timers():
                if getattr(getattr(h, "_callback", None), "__self__", None) is m.real:
                    self.bad("c05:timer-still-armed", what, f"scope {m.name} has been left but its deadline timer is still armed")
                    break

    def residue_check(self, m, task, what):
        """C05(1): with no cancelled scope left anywhere above, the native cancel count must be back to 0."""
        if task in self.tainted or getattr(self.loop, "failed", None):
            return
        expected = self.native_count.get(task, 0)      # the harness' own native requests are never undone
        if any(fired() for fired in self.native_stack.get(task, ())):
            return      # an enclosing asyncio.timeout / TaskGroup has requested a native cancellation of its own
        parent = m.parent
        if parent is None or not parent.any_cancelled_above():
            self.stats["residue_checked"] += 1
            if expected:
                self.stats["residue_checked_with_native_request"] += 1
            if task.cancelling() != expected:
                self.bad("c05:cancelling-residue", what if not expected else what + "+native",
                         f"after leaving {m.name}: Task.cancelling() == {task.cancelling()} (expected {expected}: the "
                         f"native requests of the harness) with no cancelled scope above")

    async def run_scope(self, st, ms):
        _, name, shield, rel, body = st[:5]
        task = asyncio.current_task()
        deadline = math.inf if rel is None or not self.virtual else self.loop.time() + rel
        real = CancelScope(shield=shield, deadline=deadline)
        if len(st) > 5 and st[5]:
            real.cancel()          # cancelled before it is entered
            self.stats["scope_cancelled_before_entry"] += 1
        m = Mirror(real, ms, name, task)
        arrived = left = None
        try:
            with real:
                self.scopes[name] = m
                self.cur[task] = m
                try:
                    await self.block(body, m)
                except BaseException as e:
                    arrived = e
                    m.pred = self.predict_exit(m, e)
                    if isinstance(e, asyncio.CancelledError) and is_anyio_cancel(e) and (m.parent is not None):
                        if m.parent.eff() or real.cancel_called:
                            self.stats["exit_with_cancellation_in_flight"] += 1
                    raise
                finally:
                    m.active = False
                    self.scopes.pop(name, None)
                    self.cur[task] = ms
        except BaseException as e:
            left = e
            self.check_exit(m, arrived, left, real.cancelled_caught, "scope")
            self.residue_check(m, task, "scope")
            self.timer_check(m, "scope")
            raise
        else:
            self.check_exit(m, arrived, None, real.cancelled_caught, "scope")
            self.residue_check(m, task, "scope")
            self.timer_check(m, "scope")

    async def run_catch(self, st, ms):
        _, what, body, handler, shielded, after = st
        task = asyncio.current_task()
        try:
            await self.block(body, ms)
        except _Return:
            raise
        except BaseException as e:
            is_cancel = isinstance(e, asyncio.CancelledError)
            if what == "cancel" and not is_cancel:
                raise
            if is_cancel and not is_anyio_cancel(e):
                raise          # polite program: native cancellations are never handled
            if isinstance(e, (Deadlock, BudgetExceeded)):
                raise
            self.stats["caught"] += 1
            iv = [self.loop.time(), None]
            if is_cancel:
                self.handler_intervals.setdefault(task, []).append(iv)
            try:
                await self._run_handler(handler, ms, task, shielded)
            finally:
                iv[1] = self.loop.time()
            if after == "reraise":
                raise
            if after == "boom":
                raise Boom(1000 + self.stats["caught"])
            if after == "wrap":
                raise BaseExceptionGroup("wrapped", [e, Boom(2000 + self.stats["caught"])])
            return      # swallow

    def in_cancel_handler_at(self, task, t):
        """True if ``task`` was executing an ``except <AnyIO cancellation>`` handler at virtual time t: a native
        cancellation landing there is chained to the AnyIO one (__context__) and AnyIO documents treating it as its own."""
        return any(a <= t and (b is None or t <= b) for a, b in self.handler_intervals.get(task, ()))

    async def _run_handler(self, handler, ms, task, shielded):
        if True:
            if shielded:
                with CancelScope(shield=True) as sc:
                    cm = Mirror(sc, ms, "cleanup", task, "cleanup")
                    self.cur[task] = cm
                    try:
                        await self.block(handler, cm)
                    finally:
                        self.cur[task] = ms
            else:
                await self.block(handler, ms)

    # ---- native asyncio constructs (C05)
    async def run_ntimeout(self, st, ms):
        _, d, body = st
        task = asyncio.current_task()
        if not self.virtual:
            await self.block(body, ms)
            return
        t0 = self.loop.time()
        self.stats["native_timeout"] += 1
        c0 = task.cancelling()
        cm = asyncio.timeout(d)
        stack = self.native_stack.setdefault(task, [])
        stack.append(cm.expired)
        outermost = len(stack) == 1
        try:
            async with cm:
                await self.block(body, ms)
        except TimeoutError:
            if not cm.expired() or self.in_cancel_handler_at(task, t0 + d):
                raise           # some inner timeout's error travelling through / undecided overlap with a handler
            if self.loop.time() < t0 + d:
                # (later is legitimate: a task group in the body first waits for shielded children)
                self.bad("c05:native-timeout-early", "", f"asyncio.timeout({d}) entered at {t0} raised at {self.loop.time()}")
            self.stats["native_timeout_fired"] += 1
            if outermost and task.cancelling() != c0 and task not in self.native_targets:
                self.bad("c05:cancelling-residue", "after-asyncio.timeout", f"{c0} -> {task.cancelling()}")
            raise
        except asyncio.CancelledError as e:
            if not is_anyio_cancel(e) and cm.expired() and ms.any_cancelled_above():
                # the timeout expired, saw further cancellation requests pending (an AnyIO scope's) and let the
                # CancelledError through - but the error carries no AnyIO message (the timeout's own cancel() came first)
                self.unclaimed_after_timeout.add(task)
            if not is_anyio_cancel(e) and task not in self.native_targets and cm.expired() and outermost \
                    and not ms.any_cancelled_above() and not self.in_cancel_handler_at(task, t0 + d):
                self.bad("c05:native-cancel-escaped", "asyncio.timeout",
                         f"CancelledError instead of TimeoutError left asyncio.timeout({d}) at t={self.loop.time()}")
            raise
        else:
            if self.loop.time() > t0 + d and outermost and not ms.any_cancelled_above() \
                    and not self.in_cancel_handler_at(task, t0 + d):
                self.bad("c05:native-timeout-missed", "", f"asyncio.timeout({d}) entered at {t0}: body ran until {self.loop.time()}")
        finally:
            stack.pop()

    async def run_ntg(self, st, ms):
        _, d, body = st
        task = asyncio.current_task()
        if not self.virtual:
            await self.block(body, ms)
            return
        self.stats["native_taskgroup"] += 1
        marker = Boom(-1)
        fired = [False]
        stack = self.native_stack.setdefault(task, [])
        stack.append(lambda: fired[0])
        outermost = len(stack) == 1

        async def failer():
            if d is None:
                return
            await asyncio.sleep(d)
            fired[0] = True
            raise marker

        try:
            async with asyncio.TaskGroup() as ntg:
                ntg.create_task(failer())
                await self.block(body, ms)
        except asyncio.CancelledError as e:
            if not is_anyio_cancel(e) and task not in self.native_targets and outermost \
                    and not ms.any_cancelled_above():
                if task in self.unclaimed_after_timeout:
                    # known finding F17 (recorded in known_findings.json under exactly this signature)
                    self.bad("c05:native-cancel-escaped", "F17:asyncio.timeout-expired-inside-cancelled-scope",
                             "an asyncio.timeout inside a cancelled AnyIO scope expired just before the scope's "
                             "cancellation was delivered; it let the CancelledError pass (other requests pending), the "
                             "scope did not recognise the message-less error as its own: nobody absorbs it")
                else:
                    self.bad("c05:native-cancel-escaped", "asyncio.TaskGroup",
                             "a native CancelledError left asyncio.TaskGroup instead of the child's ExceptionGroup")
            raise
        finally:
            stack.pop()
            if fired[0]:
                # CPython 3.12.1's TaskGroup can leave Task.cancelling() raised after it cancelled its parent:
                # the count of this task is no longer attributable to AnyIO
                self.native_targets.add(task)
                self.tainted.add(task)

    # ---- task groups (C01/C02/C07)
    async def run_group(self, st, ms):
        _, name, body = st
        task = asyncio.current_task()
        tg = create_task_group()
        gi = None
        arrived = None
        left = None
        body_exc = None
        m = None
        try:
            async with tg:
                m = Mirror(tg.cancel_scope, ms, name, task, "group")
                gi = GroupInfo(name, tg, m)
                self.groups[name] = gi
                self.scopes[name] = m
                self.cur[task] = m
                try:
                    await self.block(body, m)
                except BaseException as e:
                    body_exc = e
                    gi.body_exc = e
                    raise
                finally:
                    gi.body_done_cycle = self.cycle()
                    gi.children_running_at_body_end = [c.name for c in gi.children.values() if c.ended is None]
        except BaseException as e:
            left = e
        finally:
            if m is not None:
                m.active = False
            self.scopes.pop(name, None)
            self.cur[task] = ms
        if gi is None:
            if left is not None:
                raise left
            return
        gi.exited = True
        gi.exit_cycle = self.cycle()
        self.check_group_exit_c01(gi)
        gi.body_exc = body_exc
        self.pending_c02.append((gi, body_exc, left, ms is not None and ms.eff(),
                                 gi.mirror.eff(), gi.mirror.parent_visible()))
        self.residue_check(m, task, "group")
        if left is not None:
            raise left

    def spawn(self, st, ms):
        _, gname, cname, how, body = st
        gi = self.groups.get(gname)
        if gi is None or gi.exited or cname in self.children:
            return
        ci = ChildInfo(cname, gi, how)
        try:
            if how == "soon":
                h = gi.tg.start_soon(self.child_main, ci, body, None)
            else:
                h = gi.tg.create_task(self.child_main(ci, body, None))
        except RuntimeError:
            # group no longer active (its scope has been left): legitimately refused
            return
        if gi.mirror.real.cancel_called:
            self.stats["spawn_into_cancelled_group"] += 1
        ci.handle = h
        gi.children[cname] = ci
        self.children[cname] = ci
        self.handles[cname] = h

    async def child_main(self, ci, body, task_status, spec=None):
        from anyio._backends._asyncio import _task_states   # the only private access: fetch our handle scope object

        task = asyncio.current_task()
        ci.task = task
        self.task_child[task] = ci
        hs = _task_states[task].cancel_scope
        hm = Mirror(hs, ci.group.mirror, ci.name + ".handle", task, "handle")
        self.cur[task] = hm
        try:
            if ci.group.exited:
                ci.steps_after_exit += 1
            if spec is not None:
                rv = await self.start_child_script(ci, spec, task_status, hm)
            else:
                await self.block(body, hm)
                rv = None
            ci.ended = ("return", rv)
            return rv
        except _Return as r:
            ci.ended = ("return", r.value)
            return r.value
        except asyncio.CancelledError as e:
            ci.ended = ("cancelled", e)
            raise
        except BaseException as e:
            ci.ended = ("raise", e)
            raise
        finally:
            ci.end_cycle = self.cycle()
            if ci.native_cancelled and not ci.native_exempt and ci.ended is not None and ci.ended[0] == "return":
                self.bad("c04:native-cancellation-swallowed", "",
                         f"task {ci.name} was cancelled natively (Task.cancel()) outside any cancellation handler, "
                         f"handles no native cancellation itself, yet returned normally: {ci.ended!r}")
            if ci.group.exited:
                self.bad("c01:child-outlived-group", ci.how,
                         f"child {ci.name} ended at cycle {ci.end_cycle}, after group {ci.group.name} exited at "
                         f"{ci.group.exit_cycle}")

    def check_group_exit_c01(self, gi):
        st = self.stats
        # ---------- C01
        running = [c.name for c in gi.children.values() if c.ended is None]
        if running:
            self.bad("c01:child-running-at-exit", "", f"group {gi.name} exited with children {running} still running")
        if len(gi.children) >= 2 and getattr(gi, "children_running_at_body_end", None):
            st["group_waited_for_children"] += 1
        for c in gi.children.values():
            h = c.handle
            if h is None:
                continue
            s = h.status
            if s not in (TaskHandle.Status.FINISHED, TaskHandle.Status.FAILED, TaskHandle.Status.CANCELLED):
                self.bad("c01:handle-not-final", s.name, f"child {c.name} of {gi.name}")
                continue
            if c.ended is None:
                continue
            how, val = c.ended
            if how == "return":
                if s is not TaskHandle.Status.FINISHED:
                    self.bad("c01:handle-status-mismatch", f"returned/{s.name}", f"child {c.name}")
                else:
                    try:
                        if h.return_value != val or h.exception is not None:
                            self.bad("c01:handle-value-mismatch", "", f"child {c.name}: {h.return_value!r} vs {val!r}")
                    except Exception as e:  # noqa: BLE001
                        self.bad("c01:handle-value-mismatch", type(e).__name__, f"child {c.name}")
            elif how == "raise":
                if s is not TaskHandle.Status.FAILED:
                    self.bad("c01:handle-status-mismatch", f"raised/{s.name}", f"child {c.name} raised {val!r}")
                elif h.exception is not val:
                    self.bad("c01:handle-value-mismatch", "exception", f"child {c.name}: {h.exception!r} vs {val!r}")
            else:
                if s is not TaskHandle.Status.CANCELLED:
                    self.bad("c01:handle-status-mismatch", f"cancelled/{s.name}", f"child {c.name}")
                else:
                    try:
                        h.return_value
                        self.bad("c01:handle-value-mismatch", "cancelled-but-value", f"child {c.name}")
                    except anyio.TaskCancelled:
                        pass
    def check_group_exit_c02(self, gi, body_exc, left, enclosing_eff, group_cancelled, parent_visible):
        """Evaluated at the end of the program, when every start() call site has recorded what it received."""
        st = self.stats
        expected = []
        if body_exc is not None:
            expected += [e for e in leaves(body_exc) if not isinstance(e, asyncio.CancelledError)]
        raisers = 0
        for c in gi.children.values():
            if c.ended is not None and c.ended[0] == "raise":
                site = c.start_site
                if site is not None and site.get("delivered_to_caller") is c.ended[1]:
                    continue            # start(): the child's failure was raised by start() itself
                lv = [e for e in leaves(c.ended[1]) if not isinstance(e, asyncio.CancelledError)]
                expected += lv
                raisers += 1 if lv else 0
        if body_exc is not None and not isinstance(body_exc, asyncio.CancelledError):
            raisers += 1
        if raisers >= 2:
            st["group_with_2plus_raisers"] += 1
        got = leaves(left) if left is not None else []
        got_err = [e for e in got if not isinstance(e, asyncio.CancelledError)]
        got_cancel = [e for e in got if isinstance(e, asyncio.CancelledError)]
        exp_ids, got_ids = sorted(map(id, expected)), sorted(map(id, got_err))
        if exp_ids != got_ids:
            missing = [repr(e) for e in expected if id(e) not in got_ids]
            extra = [repr(e) for e in got_err if id(e) not in exp_ids]
            dup = len(got_ids) != len(set(got_ids))
            sig = "dropped" if missing and not extra else ("duplicated" if dup else "unexpected" if extra else "mismatch")
            self.bad("c02:leaf-mismatch", sig, f"group {gi.name}: expected leaves {[repr(e) for e in expected]}, "
                                               f"block raised {left!r} (missing {missing}, extra {extra})")
        if expected:
            if left is not None and not isinstance(left, BaseExceptionGroup):
                self.bad("c02:not-an-exception-group", "", f"group {gi.name} raised {left!r}")
            if not group_cancelled:
                self.bad("c02:group-not-cancelled-on-failure", "", f"group {gi.name}")
        if got_cancel:
            # a cancellation may only leave the block if an enclosing scope is effectively cancelled and visible
            if any(not is_anyio_cancel(e) for e in got_cancel):
                pass    # native cancellation injected by the harness travels through
            elif not enclosing_eff:
                self.bad("c02:cancellation-leaked", "", f"group {gi.name} raised {left!r} with no cancelled enclosing scope")
            if expected and is_anyio_cancel(got_cancel[0]) and not enclosing_eff:
                self.bad("c02:cancellation-reported-as-error", "", f"group {gi.name}")
        elif not expected and left is None and enclosing_eff and body_exc is not None \
                and isinstance(body_exc, asyncio.CancelledError) and is_anyio_cancel(body_exc):
            # body was interrupted by an enclosing cancellation: it must pass through unchanged
            if not group_cancelled or parent_visible:
                self.bad("c02:enclosing-cancellation-swallowed", "", f"group {gi.name}")

    def no_natives_so_far(self):
        return not self.native_targets and not self.tainted and not self.stats["native_timeout"] \
            and not self.stats["native_taskgroup"]

    # ---- TaskGroup.start (C07)
    async def run_start(self, st, ms):
        _, gname, cname, spec = st
        gi = self.groups.get(gname)
        if gi is None or gi.exited or cname in self.children:
            return
        task = asyncio.current_task()
        ci = ChildInfo(cname, gi, "start")
        site = ci.start_site = {"called": self.cycle(), "outcome": None, "delivered_to_caller": None}
        gi.children[cname] = ci
        self.children[cname] = ci
        self.stats["start_calls"] += 1
        group_cancelled_before = gi.mirror.real.cancel_called
        try:
            h = await self._start_op(gi, ci, spec, ms)
        except RuntimeError as e:
            if ci.task is None:
                # refused: group not active any more
                gi.children.pop(cname, None)
                self.children.pop(cname, None)
                return
            site["outcome"] = ("raised", e)
            if ci.ended is None:
                self.bad("c07:start-raised-before-child-ended", "RuntimeError", f"child {cname}")
            elif ci.ended[0] == "return" and ci.started_called == 0:
                site["delivered_to_caller"] = e
            elif ci.ended[0] == "raise" and ci.ended[1] is e:
                site["delivered_to_caller"] = e
            else:
                self.bad("c07:start-wrong-exception", "RuntimeError", f"child {cname} ended {ci.ended}, start() raised {e!r}")
                if ci.ended[0] == "cancelled" and is_anyio_cancel(ci.ended[1]):
                    self.bad("c02:cancellation-reported-as-error", "start", f"child {cname} of group {gi.name} was "
                             f"cancelled by a scope before started(); start() turned that into {e!r}")
            raise
        except BaseException as e:
            site["outcome"] = ("raised", e)
            if ci.task is not None and ci.ended is None and task not in self.start_wait_cut:
                self.bad("c07:start-raised-before-child-ended", type(e).__name__,
                         f"start() of {cname} raised {e!r} at cycle {self.cycle()} while the child is still running")
            if isinstance(e, asyncio.CancelledError):
                self.stats["start_caller_cancelled"] += 1
                if not is_anyio_cancel(e) and self.no_natives_so_far():
                    # nobody has called Task.cancel() in this program: every cancellation error belongs to a scope
                    self.bad("c07:start-wrong-exception", "unowned-CancelledError",
                             f"child {cname} ended {ci.ended}, start() raised {e!r}, which no cancel scope owns")
                if ci.ended is not None and ci.ended[0] == "raise":
                    self.stats["start_child_raised_after_caller_cancelled"] += 1
            else:
                if ci.ended is not None and ci.ended[0] == "raise" and ci.ended[1] is e:
                    site["delivered_to_caller"] = e
                    if ci.started_called:
                        self.bad("c07:post-started-failure-routed-to-start", "", f"child {cname}")
                    elif not group_cancelled_before and gi.mirror.real.cancel_called \
                            and gi.name not in self.harness_cancelled and getattr(gi, "body_exc", None) is None \
                            and not any(c is not ci and (c.native_cancelled or (c.ended is not None and c.ended[0] == "raise"))
                                        for c in gi.children.values()):
                        self.bad("c07:group-cancelled-by-prestart-failure", "",
                                 f"group {gi.name} was cancelled on account of child {cname}, which failed before started()")
                else:
                    self.bad("c07:start-wrong-exception", type(e).__name__,
                             f"child {cname} ended {ci.ended}, start() raised {e!r}")
            raise
        else:
            site["outcome"] = ("returned", h)
            if ci.started_called == 0:
                self.bad("c07:start-returned-without-started", "", f"child {cname}")
            elif h.start_value != ci.started_value:
                self.bad("c07:start-value-mismatch", "", f"{h.start_value!r} vs {ci.started_value!r}")
            ci.handle = h
            self.handles[cname] = h
            self.stats["start_returned"] += 1

    async def _start_op(self, gi, ci, spec, ms):
        result = []

        async def call():
            result.append(await gi.tg.start(self._start_child, ci, spec, return_handle=True))

        await self.op("start", ms, call, excusable=True)
        return result[0]

    async def _start_child(self, ci, spec, *, task_status):
        return await self.child_main(ci, None, task_status, spec)

    async def start_child_script(self, ci, spec, task_status, hm):
        """pre checkpoints, then started()/raise/return/block, optional second started(), post work, end."""
        async def cleanup_aware(body_fn):
            try:
                await body_fn()
            except asyncio.CancelledError as e:
                if not is_anyio_cancel(e):
                    raise
                mode = spec.get("oncancel", "reraise")
                self.stats["start_child_cancelled"] += 1
                k3 = spec.get("cleanup", 0)
                if k3:
                    if spec.get("shielded", True):
                        with CancelScope(shield=True) as sc:
                            cm = Mirror(sc, hm, "cleanup", asyncio.current_task(), "cleanup")
                            for _ in range(k3):
                                await self.op("yield", cm, anyio.lowlevel.checkpoint)
                    else:
                        try:
                            for _ in range(k3):
                                await self.op("yield", hm, anyio.lowlevel.checkpoint)
                        except asyncio.CancelledError as e2:
                            if not is_anyio_cancel(e2):
                                raise
                if mode == "reraise":
                    raise
                if mode == "boom":
                    raise Boom(3000 + spec.get("v", 0))
                return "swallowed"

        async def script():
            return await script_with(hm)

        async def script_with(hm):
            for _ in range(spec.get("pre", 0)):
                await self.op("yield", hm, anyio.lowlevel.checkpoint)
            act = spec.get("act", "started")
            if act == "raise":
                raise Boom(4000 + spec.get("v", 0))
            if act == "return":
                return "early"
            if act == "block":
                g = self.guard()
                with g:
                    gm = Mirror(g, hm, "guard", asyncio.current_task(), "guard")
                    await self.op("forever", gm, anyio.sleep_forever)
                return "unblocked"
            v = spec.get("v", 0)
            site = ci.start_site
            caller_done_before = site["outcome"] is not None
            task_status.started(v)
            ci.started_called += 1
            ci.started_value = v
            ci.started_cycle = self.cycle()
            if spec.get("second"):
                for _ in range(spec.get("gap", 0)):
                    await self.op("yield", hm, anyio.lowlevel.checkpoint)
                try:
                    task_status.started(v + 1)
                    ci.second_started = "accepted"
                except RuntimeError:
                    ci.second_started = "refused"
            for _ in range(spec.get("post", 0)):
                await self.op("yield", hm, anyio.lowlevel.checkpoint)
            end = spec.get("end", "return")
            if end == "raise":
                self.stats["start_child_fails_after_started"] += 1
                raise Boom(5000 + v)
            if end == "block":
                g = self.guard()
                with g:
                    gm = Mirror(g, hm, "guard", asyncio.current_task(), "guard")
                    await self.op("forever", gm, anyio.sleep_forever)
            return ("done", v)

        if spec.get("shield_script"):
            # the child ignores cancellation until its script is over (e.g. it must finish a hand-over)
            async def shielded_script():
                with CancelScope(shield=True) as sc:
                    nonlocal_hm = Mirror(sc, hm, "shielded-script", asyncio.current_task(), "cleanup")
                    return await script_with(nonlocal_hm)
            return await cleanup_aware(shielded_script)
        return await cleanup_aware(script)


class _Return(Exception):
    def __init__(self, value):
        self.value = value


STAT_KEYS = ["scope_cancelled_before_entry", "deadline_reassigned", "native_cancel", "native_cancel_at_group_join", "cancel_external", "cancel_self", "cancel_sibling", "cancel_handle",
             "op_entered_cancelled", "interrupted_after_blocking", "guard_fired", "shield_toggled", "absorbed",
             "propagated", "exit_with_cancellation_in_flight", "residue_checked", "residue_checked_with_native_request", "caught", "native_timeout",
             "native_timeout_fired", "native_taskgroup", "spawn_into_cancelled_group", "group_waited_for_children",
             "group_with_2plus_raisers", "start_calls", "start_caller_cancelled",
             "start_child_raised_after_caller_cancelled", "start_returned", "start_child_cancelled",
             "start_child_fails_after_started"]


def run_program(case):
    """Execute the program; returns (Outcome with all rules, stats, world)."""
    out = Outcome()
    stats = dict.fromkeys(STAT_KEYS, 0)
    holder = {}

    async def main(loop):
        w = World(loop, case, out, stats)
        w.task_child = {}
        holder["w"] = w
        loop.monitor = w.monitor
        if hasattr(loop, "on_idle"):
            loop.on_idle = w.on_idle
        task = asyncio.current_task()
        root_scope = CancelScope()
        top_exc = None
        with root_scope:
            root = Mirror(root_scope, None, "root", task, "root")
            w.cur[task] = root
            try:
                await w.block(case["main"], root)
            except (Boom, _Return) as e:
                top_exc = e
            except BaseExceptionGroup as e:
                top_exc = e
                if any(is_anyio_cancel(x) for x in leaves(e)):
                    w.bad("c04:cancellation-escaped-root", "group", repr(e))
            except TimeoutError as e:
                top_exc = e
            except asyncio.CancelledError as e:
                if is_anyio_cancel(e):
                    w.bad("c04:cancellation-escaped-root", "", "an AnyIO cancellation reached the top although no "
                                                               "enclosing scope was cancelled")
                else:
                    if w.no_natives_so_far():
                        w.bad("c04:cancellation-escaped-root", "unowned", "a cancellation error that no cancel scope "
                              "owns reached the top although nothing called Task.cancel()")
                    raise
        w.finished = True
        for rec in w.pending_c02:
            w.check_group_exit_c02(*rec)
        for ci in w.children.values():
            if getattr(ci, "second_started", None) == "refused" and ci.start_site is not None \
                    and ci.start_site["outcome"] is not None and ci.start_site["outcome"][0] == "raised" \
                    and isinstance(ci.start_site["outcome"][1], asyncio.CancelledError):
                w.bad("c07:second-started-refused-after-caller-cancelled", "",
                      f"child {ci.name}: the caller of start() had been cancelled before the first started(); the "
                      f"second started() call raised RuntimeError")
            if getattr(ci, "second_started", None) == "accepted" and ci.start_site is not None \
                    and ci.start_site["outcome"] is not None and ci.start_site["outcome"][0] == "returned":
                w.bad("c07:second-started-accepted", "", f"child {ci.name}: start() had returned, yet a second "
                                                         f"task_status.started() call was accepted")
        for gi, ci in w.prestart_failures:
            # the group must not have been cancelled on account of a child that failed before started():
            # judged only when nothing else can have cancelled it
            other = any(c is not ci and (c.native_cancelled or (c.ended is not None and c.ended[0] == "raise"))
                        for c in gi.children.values())     # (a natively cancelled child cancels its group as well)
            if gi.mirror.real.cancel_called and not other and getattr(gi, "body_exc", None) is None \
                    and gi.name not in w.harness_cancelled:
                w.bad("c07:group-cancelled-by-prestart-failure", "", f"group {gi.name}, child {ci.name}")
        # second verdicts once everything is over
        for c in w.children.values():
            if c.steps_after_exit:
                w.bad("c01:child-step-after-exit", c.how, f"child {c.name} executed {c.steps_after_exit} statement(s) "
                                                          f"after its group {c.group.name} had exited")
        if task.cancelling() != 0 and task not in w.native_targets:
            w.bad("c05:cancelling-residue", "end-of-program", f"Task.cancelling() == {task.cancelling()}")
        # drain: give stragglers / stale callbacks the chance to show
        for _ in range(3):
            await asyncio.sleep(0)
        for c in w.children.values():
            if c.ended is None and c.task is not None:
                w.bad("c01:child-never-ended", c.how, f"child {c.name} of group {c.group.name}")
        if hasattr(loop, "ready_handles"):
            for h in loop.ready_handles():
                owner = getattr(getattr(h, "_callback", None), "__self__", None)
                if isinstance(owner, CancelScope):
                    w.bad("c05:delivery-callback-still-running", "", "a cancel scope callback is still queued 3 cycles "
                                                                     "after the program ended")
                    break
            for h in loop.live_timers():
                owner = getattr(getattr(h, "_callback", None), "__self__", None)
                if isinstance(owner, CancelScope):
                    w.bad("c05:timer-still-armed", "", "a cancel scope deadline timer is still armed after the program ended")
                    break
        return top_exc

    err = None
    try:
        run_on(case["config"], main, budget=6000)
    except Deadlock as e:
        out.bad("c03:hang", "deadlock", repr(e))
        out.bad("hang", "deadlock", repr(e))       # (the same verdict for the checks that do not own the c03 rules)
        err = "deadlock"
    except BudgetExceeded as e:
        out.bad("c03:hang", "busy-loop", repr(e))
        out.bad("hang", "busy-loop", repr(e))
        err = "busy"
    except asyncio.CancelledError:
        err = "native-cancel-of-main"
    return out, stats, holder.get("w"), err
