"""Shared machinery for the primitive checks (C09-C13, C20): scripted actors on a harness-owned loop.

Actors are plain ``loop.create_task`` tasks (not task-group children), each blocking operation runs inside
its own CancelScope so that other actors / the controller can cancel exactly that operation, either through
the scope (AnyIO cancellation) or natively (task.cancel()).  A janitor detects quiescence in loop cycles.
"""
from __future__ import annotations

import asyncio
from contextlib import contextmanager

import anyio
from anyio import CancelScope

from .loops import BudgetExceeded, Deadlock, run_on


class Sim:
    def __init__(self, loop):
        self.loop = loop
        self.progress = 0
        self.scopes = {}        # aid -> CancelScope of the operation it is blocked in
        self.tasks = {}         # aid -> asyncio.Task
        self.cancel_req = {}    # aid -> cycle at which cancellation of its current op was requested
        self.native_req = set() # aids with a native cancel in flight
        self.finished = set()
        self.quiescent_rounds = 0
        self.gave_up = False
        self.draining = False   # set after repeated quiescence: actors skip their remaining steps
        self.nest = 0           # extra (unshielded, never cancelled) scopes between the cancelled scope and the operation
        self.on_monitor = None

    def now(self):
        return self.loop.cycle

    async def delay(self, k):
        for _ in range(k):
            await asyncio.sleep(0)

    @contextmanager
    def op(self, aid):
        """Run one potentially blocking operation of actor ``aid`` in its own cancel scope."""
        sc = CancelScope()
        self.scopes[aid] = sc
        self.progress += 1
        try:
            with sc:
                if self.nest == 1:
                    with CancelScope():
                        yield sc
                elif self.nest >= 2:
                    with CancelScope(), CancelScope():
                        yield sc
                else:
                    yield sc
        finally:
            self.scopes.pop(aid, None)
            self.cancel_req.pop(aid, None)
            self.progress += 1

    def cancel(self, target):
        sc = self.scopes.get(target)
        if sc is not None and not sc.cancel_called:
            sc.cancel()
            self.cancel_req.setdefault(target, self.now())
            return True
        return False

    def native_cancel(self, target):
        t = self.tasks.get(target)
        if t is not None and not t.done() and target in self.scopes and t is not asyncio.current_task():
            t.cancel()
            self.cancel_req.setdefault(target, self.now())
            self.native_req.add(target)
            return True
        return False

    def cancel_requested(self, aid):
        return aid in self.cancel_req

    async def run(self, n_actors, actor_fn, *, idle_cycles=14, on_quiescent=None, max_rounds=12):
        """Spawn actors, wait for them; on quiescence call on_quiescent() then cancel blocked ops."""
        loop = self.loop

        async def wrapper(aid):
            self.tasks[aid] = asyncio.current_task()   # eager factories run us before create_task returns
            if getattr(self, "residue", False):
                # this task once swallowed a native cancellation without calling uncancel(): Task.cancelling() stays
                # at 1 for its whole life (legal asyncio; nothing in the tested code may depend on that counter)
                asyncio.current_task().cancel()
                try:
                    await asyncio.sleep(0)
                except asyncio.CancelledError:
                    pass
            try:
                await actor_fn(aid)
            finally:
                self.finished.add(aid)
                self.progress += 1

        for aid in range(n_actors):
            self.tasks[aid] = loop.create_task(wrapper(aid))
        rounds = 0
        while len(self.finished) < n_actors:
            last = self.progress
            idle = 0
            while idle < idle_cycles and len(self.finished) < n_actors:
                await asyncio.sleep(0)
                if self.progress != last:
                    last = self.progress
                    idle = 0
                else:
                    idle += 1
            if len(self.finished) >= n_actors:
                break
            # quiescent with blocked actors
            rounds += 1
            self.quiescent_rounds = rounds
            skip_cancel = False
            if on_quiescent is not None:
                skip_cancel = bool(on_quiescent(rounds))     # True: the callback unblocked something itself
            if rounds > max_rounds:
                self.gave_up = True
                for t in self.tasks.values():
                    if not t.done():
                        t.cancel()
                await asyncio.sleep(0)
                await asyncio.sleep(0)
                break
            if rounds >= 3:
                self.draining = True
            if not skip_cancel:
                for aid in list(self.scopes):
                    self.cancel(aid)
            self.progress += 1
        res = await asyncio.gather(*self.tasks.values(), return_exceptions=True)
        return res


def run_sim(config, body, *, budget=20000):
    """body(sim) is awaited inside anyio.run on a fresh loop; returns (result, error-kind|None)."""
    holder = {}

    async def main(loop):
        sim = Sim(loop)
        holder["sim"] = sim
        prev = loop.monitor

        def mon(lp):
            if sim.on_monitor is not None:
                sim.on_monitor(lp)
            if prev is not None:
                prev(lp)

        loop.monitor = mon
        return await body(sim)

    try:
        return run_on(config, main, budget=budget), None, holder.get("sim")
    except Deadlock as e:
        return None, ("deadlock", repr(e)), holder.get("sim")
    except BudgetExceeded as e:
        return None, ("busy-loop", repr(e)), holder.get("sim")
