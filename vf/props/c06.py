"""C06 Deadlines fire exactly when due -- discrete-event reference simulation on a virtual clock.

Case = {"prog": [stmt...], "ext": [[time, scope, rel], ...]}
stmt = ["sleep", d] | ["probe"] | ["setdl", scope, rel] | ["cancel", scope]
     | ["scope", name, kind, rel|None, shield, body]      kind: plain|move_on|move_on_at|fail|fail_at
"""
from __future__ import annotations

import asyncio
import math

import anyio
from anyio import CancelScope, current_effective_deadline, fail_after, fail_at, move_on_after, move_on_at

from ..gen import composite
from ..loops import BudgetExceeded, Deadlock, run_on
from ..runner import Outcome

ID = "C06"
RULE = ("Hypothesis-generated single-task programs of nested deadline scopes on the virtual clock; "
        "non-trivial = at least two scopes with different finite deadlines and a sleep interrupted by a "
        "deadline, or a deadline reassigned (by the task or by a timer callback) while its scope is active; "
        "distinct = distinct canonical JSON of the program")
ASSUMPTIONS = [
    "virtual clock: VLoop.time() jumps to the earliest live timer when the ready queue is empty",
    "timer ties excluded by construction (every deadline source carries its own binary fraction) and "
    "detected by the reference (case discarded and counted)",
    "fail_after/fail_at scopes are never cancelled explicitly and their deadline is not reassigned after "
    "it fired (proviso of the property)",
    "asyncio backend only",
]


def budget(tier):
    return 40000 if tier == "quick" else 800000


KINDS = ["plain", "move_on", "fail", "move_on_at", "fail_at"]


def _gen(g):
    src = [0]  # deadline-source counter -> unique binary fraction

    def frac():
        src[0] += 1
        return 2.0 ** -(src[0] + 1)

    names = []
    maxdepth = g.int(1, 5)

    def block(depth, live):
        out = []
        for _ in range(g.int(1, 4)):
            k = g.weighted([(30, "sleep"), (28 if depth < maxdepth else 0, "scope"), (12, "probe"),
                            (12 if live or names else 0, "setdl"), (5 if live else 0, "cancel")])
            if k == "sleep":
                out.append(["sleep", g.choice([0, 1, 1, 2, 3, 5, 6])])
            elif k == "probe":
                out.append(["probe"])
            elif k == "scope" and src[0] < 20:
                name = f"s{len(names)}"
                names.append(name)
                kind = g.choice(KINDS)
                rel = g.weighted([(70, "fin"), (15, "none"), (15, "past")])
                if rel == "none":
                    relv = None
                elif rel == "past":
                    relv = -g.choice([0.5, 1, 2]) - frac()
                else:
                    relv = g.choice([0.5, 1, 1.5, 2, 2.5, 3, 4.5, 7.5, 12]) + frac()
                if src[0] >= 20:
                    relv = None
                shield = g.chance(25)
                body = block(depth + 1, live + [(name, kind)])
                out.append(["scope", name, kind, relv, shield, body])
            elif k == "setdl":
                pool = [n for n, _ in live] or names
                if g.chance(20) and names:
                    pool = names
                target = g.choice(pool)
                r = g.weighted([(50, "fin"), (20, "past"), (30, "inf")])
                if r == "inf" or src[0] >= 20:
                    relv = math.inf
                elif r == "past":
                    relv = -g.choice([0.5, 1]) - frac()
                else:
                    relv = g.choice([0.5, 1, 1.5, 2.5, 3.5, 6]) + frac()
                out.append(["setdl", target, relv])
            elif k == "cancel":
                pool = [n for n, kd in live if not kd.startswith("fail")]
                if pool:
                    out.append(["cancel", g.choice(pool)])
        return out

    prog = block(0, [])
    ext = []
    if names:
        for _ in range(g.weighted([(50, 0), (30, 1), (15, 2), (5, 3)])):
            if src[0] >= 22:
                break
            et = g.choice([0.5, 1, 1.5, 2, 2.5, 3, 4, 5, 7]) + frac()
            r = g.weighted([(50, "fin"), (20, "past"), (30, "inf")])
            relv = math.inf if r == "inf" else (-1.0 if r == "past" else g.choice([0.5, 1, 2, 3.5]))
            ext.append([et, g.choice(names), relv])
    ext.sort()
    return {"prog": prog, "ext": ext}


_strategy = composite(_gen)


def strategy(tier):
    return _strategy()


# ------------------------------------------------------------------ reference simulator


class _SimCancel(Exception):
    pass


class _SimTimeout(Exception):
    pass


class Ambiguous(Exception):
    pass


class _RS:
    __slots__ = ("name", "kind", "deadline", "shield", "cancelled", "caught", "active")

    def __init__(self, name, kind, deadline, shield):
        self.name, self.kind, self.deadline, self.shield = name, kind, deadline, shield
        self.cancelled = self.caught = False
        self.active = True


def ref_run(prog, externals):
    """Walk the program on the reference's own clock, from docs/cancellation.rst semantics."""
    t = 0.0
    stack: list[_RS] = []
    scopes: dict[str, _RS] = {}
    trace = []
    ext = sorted(externals)
    stats = {"interrupted_by_deadline": 0, "reassigned_active": 0}

    def visible(st):
        out = []
        for s in reversed(st):
            out.append(s)
            if s.shield:
                break
        return out

    def eff(st):
        return any(s.cancelled for s in visible(st))

    def expire(now):
        hit = [s for s in stack if not s.cancelled and s.deadline <= now]
        for s in hit:
            s.cancelled = True

    def set_deadline(s, now, rel):
        if s.active and not (s.kind.startswith("fail") and s.cancelled):
            s.deadline = now + rel
            stats["reassigned_active"] += 1
            if not s.cancelled and s.deadline <= now:
                s.cancelled = True
            return True
        return False

    def apply_ext(upto):
        nonlocal ext
        while ext and ext[0][0] <= upto:
            et, name, rel = ext.pop(0)
            s = scopes.get(name)
            if s is not None:
                set_deadline(s, et, rel)

    def do_sleep(d):
        nonlocal t
        end = t + d
        if eff(stack):
            trace.append(("sleep-cancelled", t))
            raise _SimCancel
        if d <= 0:
            trace.append(("sleep-done", t))
            return
        while True:
            cands = [s.deadline for s in stack if not s.cancelled and s.deadline > t]
            if ext:
                cands.append(ext[0][0])
            allc = sorted(cands + [end])
            for a, b in zip(allc, allc[1:]):
                if a == b and a <= end:
                    raise Ambiguous
            nxt = allc[0]
            if nxt >= end:
                t = end
                trace.append(("sleep-done", t))
                return
            t = nxt
            expire(t)
            apply_ext(t)
            if eff(stack):
                stats["interrupted_by_deadline"] += 1
                trace.append(("sleep-cancelled", t))
                raise _SimCancel

    def block(body):
        nonlocal t
        for st in body:
            k = st[0]
            if k == "sleep":
                do_sleep(st[1])
            elif k == "probe":
                vis = visible(stack)
                if any(s.cancelled for s in vis):
                    v = -math.inf
                else:
                    v = min([s.deadline for s in vis], default=math.inf)
                trace.append(("probe", t, v))
            elif k == "setdl":
                s = scopes.get(st[1])
                if s is not None:
                    set_deadline(s, t, st[2])
            elif k == "cancel":
                s = scopes.get(st[1])
                if s is not None and s.active:
                    s.cancelled = True
            elif k == "scope":
                _, name, kind, rel, shield, body2 = st
                s = _RS(name, kind, math.inf if rel is None else t + rel, shield)
                if s.deadline <= t:
                    s.cancelled = True
                stack.append(s)
                scopes[name] = s
                exc = None
                try:
                    block(body2)
                except _SimCancel as e:
                    exc = e
                finally:
                    stack.pop()
                    s.active = False
                if exc is not None:
                    parent_visible = (not s.shield) and eff(stack)
                    if s.cancelled and not parent_visible:
                        s.caught = True
                        trace.append(("exit", name, t, "absorbed"))
                        if kind.startswith("fail"):
                            trace.append(("timeout", name, t))
                            raise _SimTimeout(name)
                    else:
                        trace.append(("exit", name, t, "propagate"))
                        raise exc
                else:
                    trace.append(("exit", name, t, "normal"))

    try:
        block(prog)
    except _SimTimeout:
        trace.append(("program-timeout",))
    except _SimCancel:
        trace.append(("program-cancel-escaped",))
    trace.append(("end", t))
    # externals after the end of the program act on inactive scopes: no effect
    final = {n: (s.cancelled, s.caught) for n, s in scopes.items()}
    return trace, final, stats


# ------------------------------------------------------------------ real run


def real_run(prog, externals, config="S"):
    trace = []
    final = {}
    stale = []

    async def main(loop):
        scopes = {}
        cancelled_exc = anyio.get_cancelled_exc_class()

        def set_deadline(name, rel):
            s = scopes.get(name)
            if s is None:
                return
            sc, active, kind = s
            if active[0] and not (kind.startswith("fail") and sc.cancel_called):
                sc.deadline = loop.time() + rel

        for et, name, rel in externals:
            loop.call_at(et, set_deadline, name, rel)

        def timers_of(sc):
            return [h for h in loop.live_timers()
                    if getattr(getattr(h, "_callback", None), "__self__", None) is sc]

        async def block(body):
            for st in body:
                k = st[0]
                if k == "sleep":
                    try:
                        await anyio.sleep(st[1])
                    except cancelled_exc:
                        trace.append(("sleep-cancelled", loop.time()))
                        raise
                    trace.append(("sleep-done", loop.time()))
                elif k == "probe":
                    trace.append(("probe", loop.time(), current_effective_deadline()))
                elif k == "setdl":
                    set_deadline(st[1], st[2])
                elif k == "cancel":
                    s = scopes.get(st[1])
                    if s is not None and s[1][0]:
                        s[0].cancel()
                elif k == "scope":
                    _, name, kind, rel, shield, body2 = st
                    now = loop.time()
                    if kind == "plain":
                        cm = CancelScope(deadline=math.inf if rel is None else now + rel, shield=shield)
                    elif kind == "move_on":
                        cm = move_on_after(rel, shield=shield)
                    elif kind == "move_on_at":
                        cm = move_on_at(None if rel is None else now + rel, shield=shield)
                    elif kind == "fail":
                        cm = fail_after(rel, shield=shield)
                    else:
                        cm = fail_at(None if rel is None else now + rel, shield=shield)
                    active = [True]
                    seen = [None]
                    sc = None
                    try:
                        with cm as sc:
                            scopes[name] = (sc, active, kind)
                            try:
                                await block(body2)
                            except BaseException as e:
                                seen[0] = e
                                raise
                            finally:
                                active[0] = False
                    except TimeoutError:
                        if isinstance(seen[0], cancelled_exc):
                            trace.append(("exit", name, loop.time(), "absorbed"))
                            trace.append(("timeout", name, loop.time()))
                        if timers_of(sc):
                            stale.append(name)
                        raise
                    except cancelled_exc:
                        trace.append(("exit", name, loop.time(), "propagate"))
                        if timers_of(sc):
                            stale.append(name)
                        raise
                    else:
                        trace.append(("exit", name, loop.time(),
                                      "absorbed" if seen[0] is not None else "normal"))
                        if timers_of(sc):
                            stale.append(name)

        try:
            await block(prog)
        except TimeoutError:
            trace.append(("program-timeout",))
        except cancelled_exc:
            trace.append(("program-cancel-escaped",))
        trace.append(("end", loop.time()))
        # give any stale timer the chance to fire, then read the flags
        await asyncio.sleep(1000)
        for n, (sc, _a, _k) in scopes.items():
            final[n] = (sc.cancel_called, sc.cancelled_caught)
        for h in loop.live_timers():
            owner = getattr(getattr(h, "_callback", None), "__self__", None)
            if isinstance(owner, anyio.CancelScope):
                stale.append("end")

    run_on(config, main)
    return trace, final, stale


def run_case(case) -> Outcome:
    out = Outcome()
    prog, ext = case["prog"], [tuple(e) for e in case["ext"]]
    try:
        rtrace, rfinal, stats = ref_run(prog, list(ext))
    except Ambiguous:
        out.discard = True
        return out
    try:
        trace, final, stale = real_run(prog, ext)
    except Deadlock as e:
        out.bad("hang", "deadlock", repr(e))
        return out
    except BudgetExceeded as e:
        out.bad("hang", "busy-loop", repr(e))
        return out
    if trace != rtrace:
        # first differing event classifies the bucket
        i = 0
        while i < min(len(trace), len(rtrace)) and trace[i] == rtrace[i]:
            i += 1
        r = rtrace[i] if i < len(rtrace) else ("<none>",)
        a = trace[i] if i < len(trace) else ("<none>",)
        out.bad("trace-mismatch", f"ref:{r[0]}|real:{a[0]}", f"at #{i}: reference {r} real {a}")
    elif final != rfinal:
        diff = sorted(n for n in rfinal if final.get(n) != rfinal[n])
        out.bad("final-flags", "cancel_called/cancelled_caught",
                f"scopes {diff}: reference {[rfinal[n] for n in diff]} real {[final.get(n) for n in diff]}")
    if stale:
        out.bad("stale-timer", "timer armed after scope exit", f"scopes {stale}")
    # non-triviality
    dls = set()

    def walk(b):
        for st in b:
            if st[0] == "scope":
                if st[3] is not None:
                    dls.add(st[3])
                walk(st[5])

    walk(prog)
    out.nontrivial = (len(dls) >= 2 and stats["interrupted_by_deadline"] > 0) or stats["reassigned_active"] > 0
    if stats["interrupted_by_deadline"]:
        out.labels.append("sleep-interrupted-by-deadline")
    if stats["reassigned_active"]:
        out.labels.append("deadline-reassigned-while-active")
    if any(e[0] == "timeout" for e in rtrace):
        out.labels.append("TimeoutError")
    if any(e[0] == "exit" and e[3] == "propagate" for e in rtrace):
        out.labels.append("cancellation-propagates-to-outer-scope")
    if any(e[0] == "probe" and e[2] == -math.inf for e in rtrace):
        out.labels.append("probe-sees-minus-inf")
    if case["ext"]:
        out.labels.append("external-timer-callback")
    out.history = [list(map(str, e)) for e in rtrace[:12]]
    return out

TECHNIQUE = ("Hypothesis-generated programs executed on a virtual-time event loop, differential against "
             "an independent discrete-event reference simulator (trace equality), plus timer-residue invariant")
LEVEL_TEXT = ("Generated-input search: every program's real trace (interrupt instants, absorb/propagate, "
              "TimeoutError, effective-deadline probes, final flags) must equal the reference simulator's; "
              "exploration, not proof. Mutants of the timer code are detected within the quick budget.")
LEVEL_NOTE = ("Trusted: the reference simulator (vf/props/c06.py ref_run, written from docs/cancellation.rst), "
              "VLoop's virtual clock, asyncio's timer heap. Single task; asyncio backend; ties excluded.")
DESIGN_REF = "3/C06"
