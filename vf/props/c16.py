"""C16 Buffered and text stream wrappers are transparent to chunking.

Buffered case = {"t": "buf", "data": bytes, "cuts": [positions], "kind": "byte"|"obj",
                 "ops": [["recv", n] | ["exact", n] | ["until", delim, m] | ["feed", bytes]
                         | ["int", <one of the first three>, k, "cancel"|"error"]]}   (interrupted at its (k+1)-th wrapped receive)
Text cases    = {"t": "textrecv", "text": str, "enc": e, "cuts": [...]}
                {"t": "textpipe", "items": [str...], "enc": e, "rechunk": [...]}
"""
from __future__ import annotations

import asyncio
import itertools

import anyio
from anyio import (BrokenResourceError, CancelScope, ClosedResourceError, DelimiterNotFound, EndOfStream, IncompleteRead,
                   create_memory_object_stream)
from anyio.abc import ByteReceiveStream, ObjectReceiveStream
from anyio.streams.buffered import BufferedByteReceiveStream
from anyio.streams.text import TextReceiveStream, TextSendStream
from hypothesis import strategies as st

from ..gen import composite
from ..runner import Outcome

ID = "C16"
EXHAUSTIVE = True
EXHAUSTIVE_NOTE = ("quick: all byte strings over {a,b} up to length 5 x all chunkings x both wrapped kinds x all "
                   "ordered pairs from a table of 26 calls; thorough: length 7 (and all triples for length <= 3); "
                   "text: all 2- and 3-chunk splits of the encodings of a fixed set of code-point mixes")
RULE = ("one case = one wrapped stream (data, chunking, kind) plus a call sequence, followed by a drain to end of "
        "stream; Hypothesis histories also contain calls interrupted at their (k+1)-th wrapped receive by cancellation or by "
        "a one-off error of the wrapped stream; non-trivial = some call needed two or more wrapped receives, or a chunk boundary fell strictly "
        "inside a delimiter occurrence / inside a multi-byte character; distinct = distinct canonical JSON")
ASSUMPTIONS = [
    "wrapped streams never yield empty chunks (ByteReceiveStream contract) and honour max_bytes",
    "delimiters are non-empty; text inputs are complete encodings (no truncated trailing character)",
    "the logical stream is built by the harness from the chunks it hands over and the feed_data arguments",
]
TECHNIQUE = ("exhaustive small-domain enumeration + Hypothesis histories (+ atheris coverage-guided campaigns over the same strategy in thorough); "
             "prefix/round-trip invariant against the harness-built logical stream")
LEVEL_TEXT = ("After every call: bytes handed out (delimiters re-inserted) + stream.buffer == logical stream so far; "
              "per-call contracts of receive/receive_exactly/receive_until; final drain returns everything. Text: "
              "concatenation equals decode of the whole input for every split; TextSendStream->TextReceiveStream "
              "is the identity. Exhaustive within stated bounds, sampled beyond.")
LEVEL_NOTE = "Trusted: the harness' wrapped-stream doubles, Python's codecs as decoding reference."
DESIGN_REF = "3/C16"


def budget(tier):
    return 40000 if tier == "quick" else 600000


# ------------------------------------------------------------------ wrapped stream doubles


async def _trip(src):
    """Injected interruption of the wrapped receive: a one-off error, or cancellation of the caller's scope."""
    t = getattr(src, "trip", None)
    if t is not None and src.calls >= t[0]:
        src.trip = None
        src.tripped = True
        if t[1] == "error":
            raise BrokenResourceError
        t[2].cancel()
        await anyio.sleep(0)       # the cancellation lands here


class ByteSrc(ByteReceiveStream):
    def __init__(self, chunks):
        self.chunks = list(chunks)
        self.handed = []
        self.calls = 0

    async def receive(self, max_bytes: int = 65536) -> bytes:
        self.calls += 1
        await _trip(self)
        await asyncio.sleep(0)
        if not self.chunks:
            raise EndOfStream
        c = self.chunks[0]
        if len(c) > max_bytes:
            out, self.chunks[0] = c[:max_bytes], c[max_bytes:]
        else:
            out = self.chunks.pop(0)
        self.handed.append(out)
        return out

    async def aclose(self) -> None:
        self.chunks = []


class ObjSrc(ObjectReceiveStream):
    """Records what a real memory object stream hands over (not a ByteReceiveStream)."""

    def __init__(self, chunks):
        send, self.inner = create_memory_object_stream(float("inf"))
        for c in chunks:
            send.send_nowait(c)
        send.close()
        self.handed = []
        self.calls = 0

    async def receive(self):
        self.calls += 1
        await _trip(self)
        item = await self.inner.receive()
        self.handed.append(item)
        return item

    async def aclose(self) -> None:
        await self.inner.aclose()


def chunked(data, cuts):
    pos = sorted(set(c for c in cuts if 0 < c < len(data)))
    out, prev = [], 0
    for c in pos + [len(data)]:
        if c > prev:
            out.append(data[prev:c])
        prev = c
    return out


# ------------------------------------------------------------------ buffered oracle


async def run_buf(case, out):
    data, kind = case["data"], case["kind"]
    chunks = chunked(data, case["cuts"])
    srcobj = ByteSrc(chunks) if kind == "byte" else ObjSrc(chunks)
    stream = BufferedByteReceiveStream(srcobj)
    events = []           # arrival order of wire chunks and feed_data arguments
    handed_out = bytearray()
    seen_wire = 0
    multi = False
    interrupted = [0]

    def logical():
        nonlocal seen_wire
        # append newly handed wire chunks in arrival order
        while seen_wire < len(srcobj.handed):
            events.append(srcobj.handed[seen_wire])
            seen_wire += 1
        return b"".join(events)

    def wire_rest():
        if kind == "byte":
            return b"".join(srcobj.chunks)
        n = len(b"".join(srcobj.handed))
        return b"".join(chunks)[n:]

    def check_inv(opname):
        L = logical()
        if bytes(handed_out) + stream.buffer != L:
            out.bad("prefix-invariant", opname,
                    f"{case!r}: handed={bytes(handed_out)!r} buffer={stream.buffer!r} logical={L!r}")
            return False
        return True

    async def do_op(op):
        nonlocal handed_out
        L0 = logical()
        rem = L0[len(handed_out):] + wire_rest()      # what a correct stream can still deliver, in order
        name = op[0]
        if name == "recv":
            n = op[1]
            try:
                r = await stream.receive(n)
            except EndOfStream:
                if rem:
                    out.bad("receive-eos-with-data", kind, f"{case!r}: EndOfStream with {rem!r} remaining")
            else:
                if not (1 <= len(r) <= n):
                    out.bad("receive-size", kind, f"{case!r}: receive({n}) returned {len(r)} bytes")
                handed_out += r
        elif name == "exact":
            n = op[1]
            try:
                r = await stream.receive_exactly(n)
            except IncompleteRead:
                if len(rem) >= n:
                    out.bad("exactly-incomplete-but-available", kind, f"{case!r}: n={n} remaining={rem!r}")
            else:
                if len(r) != n:
                    out.bad("exactly-size", kind, f"{case!r}: receive_exactly({n}) returned {r!r}")
                if len(rem) < n:
                    out.bad("exactly-invented", kind, f"{case!r}: only {len(rem)} bytes existed")
                handed_out += r
        elif name == "until":
            d, m = op[1], op[2]
            # 'rem' at call time; feeds cannot happen during the call
            try:
                r = await stream.receive_until(d, m)
            except DelimiterNotFound:
                if d in rem[:m]:
                    out.bad("until-dnf-but-present", kind, f"{case!r}: {d!r} within first {m} of {rem!r}")
            except IncompleteRead:
                if d in rem:
                    out.bad("until-incomplete-but-present", kind, f"{case!r}: {d!r} in {rem!r}")
                if wire_rest():
                    out.bad("until-incomplete-before-eos", kind, f"{case!r}")
            else:
                if d in r:
                    out.bad("until-includes-delimiter", kind, f"{case!r}: returned {r!r}")
                if (r + d).find(d) != len(r) or not rem.startswith(r + d):
                    out.bad("until-not-first-occurrence", kind, f"{case!r}: returned {r!r} remainder {rem!r}")
                handed_out += r + d

    for op in case["ops"]:
        calls0 = srcobj.calls
        name = op[0]
        try:
            if name == "feed":
                stream.feed_data(op[1])
                events.append(bytes(op[1]))
                # fed bytes go behind the buffered ones but before unread wire bytes
            elif name == "int":
                # the inner call is interrupted at its (k+1)-th wrapped receive, by a one-off error of the wrapped
                # stream or by cancellation; whatever had arrived until then must stay available (the invariant
                # below); if the call needs fewer wrapped receives it simply completes
                inner, k, how = op[1], op[2], op[3]
                name = "int:" + inner[0]
                with CancelScope() as sc:
                    srcobj.trip = (srcobj.calls + k + 1, how, sc)
                    srcobj.tripped = False
                    try:
                        await do_op(inner)
                    except BrokenResourceError:
                        if not srcobj.tripped:
                            raise
                srcobj.trip = None
                if srcobj.tripped:
                    interrupted[0] += 1
            else:
                await do_op(op)
        except (ValueError, ClosedResourceError) as e:
            out.bad("unexpected-error", f"{name}:{type(e).__name__}", f"{case!r}: {e!r}")
        if srcobj.calls - calls0 >= 2:
            multi = True
        if not check_inv(name):
            return multi
    # drain: nothing may be lost
    for _ in range(len(data) + sum(len(e) for e in events) + 5):
        try:
            r = await stream.receive(65536)
        except EndOfStream:
            break
        if not r:
            out.bad("receive-size", kind, f"{case!r}: empty chunk during drain")
            break
        handed_out += r
    else:
        out.bad("drain-does-not-end", kind, f"{case!r}")
    L = logical()
    if bytes(handed_out) != L or stream.buffer:
        out.bad("drain-mismatch", kind, f"{case!r}: total handed {bytes(handed_out)!r} logical {L!r}")
    wire_total = b"".join(srcobj.handed)
    if wire_total != data:
        out.bad("wire-not-exhausted", kind, f"{case!r}: wire handed {wire_total!r}")
    return multi


def _boundary_inside(data, cuts, delims):
    cs = set(c for c in cuts if 0 < c < len(data))
    for d in delims:
        if len(d) < 2:
            continue
        i = data.find(d)
        while i >= 0:
            if any(i < c < i + len(d) for c in cs):
                return True
            i = data.find(d, i + 1)
    return False


# ------------------------------------------------------------------ text oracle


async def run_textrecv(case, out):
    text, enc = case["text"], case["enc"]
    raw = text.encode(enc)
    chunks = chunked(raw, case["cuts"])
    kind = case.get("kind", "byte")
    srcobj = ByteSrc(chunks) if kind == "byte" else ObjSrc(chunks)
    ts = TextReceiveStream(srcobj, encoding=enc)
    got = []
    for _ in range(len(raw) + 3):
        try:
            s = await ts.receive()
        except EndOfStream:
            break
        if not s:
            out.bad("text-empty-item", enc, f"{case!r}")
        got.append(s)
    want = raw.decode(enc)
    if "".join(got) != want:
        out.bad("text-receive-concat", enc, f"{case!r}: got {got!r} want {want!r}")


async def run_textpipe(case, out):
    items, enc = case["items"], case["enc"]
    send, recv = create_memory_object_stream(float("inf"))
    tss = TextSendStream(send, encoding=enc)
    for it in items:
        await tss.send(it)
    await tss.aclose()
    wire = []
    while True:
        try:
            wire.append(recv.receive_nowait())
        except Exception:  # noqa: BLE001  EndOfStream
            break
    raw = b"".join(wire)
    plan = case.get("rechunk")
    chunks = wire if plan is None else chunked(raw, plan)
    ts = TextReceiveStream(ObjSrc(chunks), encoding=enc)
    got = []
    for _ in range(len(raw) + 3):
        try:
            got.append(await ts.receive())
        except EndOfStream:
            break
    if "".join(got) != "".join(items):
        out.bad("text-send-receive-identity", enc, f"{case!r}: got {''.join(got)!r} want {''.join(items)!r}")


# ------------------------------------------------------------------ running

_loop = None


def _get_loop():
    global _loop
    if _loop is None or _loop.is_closed():
        _loop = asyncio.new_event_loop()
    return _loop


DELIMS = [b"a", b"ab", b"aab", b"ba"]


def run_case(case) -> Outcome:
    out = Outcome()
    loop = _get_loop()
    t = case["t"]
    if t == "buf":
        multi = loop.run_until_complete(run_buf(case, out))
        ds = [op[1] for op in case["ops"] if op[0] == "until"]
        out.nontrivial = bool(multi or _boundary_inside(case["data"], case["cuts"], ds))
        if multi:
            out.labels.append("call-needed-2+-wrapped-receives")
        if out.nontrivial and not multi:
            out.labels.append("chunk-boundary-inside-delimiter")
        out.labels.append("buf-" + case["kind"])
        if any(op[0] == "int" for op in case["ops"]):
            out.labels.append("interrupted-call-generated")
        if any(op[0] == "feed" for op in case["ops"]):
            out.labels.append("feed_data")
        if len(case["data"]) > 65536:
            out.labels.append("data>65536")
    elif t == "textrecv":
        loop.run_until_complete(run_textrecv(case, out))
        raw = case["text"].encode(case["enc"])
        import codecs
        ienc = codecs.getincrementalencoder(case["enc"])()
        bounds, pos = {0}, 0
        for ch in case["text"]:
            pos += len(ienc.encode(ch))
            bounds.add(pos)
        out.nontrivial = any(0 < c < len(raw) and c not in bounds for c in case["cuts"])
        out.labels.append("text-" + case["enc"])
        if out.nontrivial:
            out.labels.append("split-inside-character")
    else:
        loop.run_until_complete(run_textpipe(case, out))
        out.nontrivial = len([i for i in case["items"] if i]) >= 2
        out.labels.append("pipe-" + case["enc"])
    return out


# ------------------------------------------------------------------ enumeration

CALLS = ([["recv", n] for n in (1, 2, 3, 5)] + [["exact", n] for n in (0, 1, 2, 3, 4, 6)] +
         [["until", d, m] for d in (b"a", b"ab", b"aab") for m in (0, 1, 2, 3, 5)] + [["feed", b"ab"]])

TEXTS = ["", "a", "abé", "é€", "a\U0001f600b", "\U00010348ÿ", "xࠀ￿\U0010ffff", "﻿a"]
ENCS = ["utf-8", "utf-16", "utf-32", "latin-1", "utf-16-le", "utf-8-sig"]


def _encodable(s, enc):
    try:
        s.encode(enc)
        return True
    except UnicodeEncodeError:
        return False


def enumerate_cases(tier):
    L = 5 if tier == "quick" else 7
    for n in range(L + 1):
        for tup in itertools.product(b"ab", repeat=n):
            data = bytes(tup)
            for mask in range(1 << max(n - 1, 0)):
                cuts = [i + 1 for i in range(n - 1) if mask >> i & 1]
                for kind in ("byte", "obj"):
                    for a in CALLS:
                        for b in CALLS:
                            yield {"t": "buf", "data": data, "cuts": cuts, "kind": kind, "ops": [a, b]}
                    if n <= 3 and tier != "quick":
                        for a in CALLS:
                            for b in CALLS:
                                for c in CALLS:
                                    yield {"t": "buf", "data": data, "cuts": cuts, "kind": kind, "ops": [a, b, c]}
    for text in TEXTS:
        for enc in ENCS:
            if not _encodable(text, enc):
                continue
            n = len(text.encode(enc))
            for i in range(n + 1):
                yield {"t": "textrecv", "text": text, "enc": enc, "cuts": [i]}
                for j in range(i + 1, n + 1):
                    yield {"t": "textrecv", "text": text, "enc": enc, "cuts": [i, j], "kind": "obj"}
    for enc in ENCS:
        pool = [t for t in TEXTS if _encodable(t, enc)]
        for a in pool:
            for b in pool:
                yield {"t": "textpipe", "items": [a, b], "enc": enc}
                if tier != "quick":
                    for c in pool:
                        yield {"t": "textpipe", "items": [a, b, c], "enc": enc, "rechunk": [1, 3, 4]}


# ------------------------------------------------------------------ Hypothesis: long histories

_CP = st.one_of(st.characters(min_codepoint=0x20, max_codepoint=0x7E),
                st.characters(min_codepoint=0x80, max_codepoint=0x7FF),
                st.characters(min_codepoint=0x800, max_codepoint=0xFFFF, blacklist_categories=("Cs",)),
                st.characters(min_codepoint=0x10000, max_codepoint=0x10FFFF))


def _gen(g):
    t = g.weighted([(60, "buf"), (22, "textrecv"), (18, "textpipe")])
    if t == "buf" and g.chance(8):
        # targeted history: a search for delimiter A gives up (DelimiterNotFound), a search for another delimiter B
        # succeeds and consumes bytes, then A is searched for again (any per-delimiter search state is now stale)
        A, B = g.choice([(b"\n", b"a"), (b"\r\n", b"a"), (b"ab", b"\n"), (b"a", b"\r\n"), (b"aab", b"\n")])
        fill = lambda k: bytes(g.choice(b"c-") for _ in range(k))      # noqa: E731
        data = fill(g.int(2, 9)) + B + fill(g.int(0, 4)) + A + fill(g.int(0, 5)) + A + fill(g.int(0, 3))
        if g.bool():
            data += B + fill(g.int(0, 3)) + A
        ncuts = g.int(0, min(len(data), 6))
        cuts = sorted(g.int(1, len(data) - 1) for _ in range(ncuts))
        ops = [["until", A, g.int(0, 6)], ["until", B, 65536], ["until", A, 65536]]
        if g.chance(40):
            # variant: after the failed search bytes are consumed from the front by receive()/receive_exactly(), the
            # buffer grows back through feed_data() with the delimiter early in it, then the search is retried
            n = g.int(1, 5)
            ops = [["until", A, g.int(0, 6)], [g.choice(["recv", "exact"]), n],
                   ["feed", fill(g.int(0, max(0, n - len(A)))) + A + fill(g.int(0, 2))], ["until", A, 65536]]
        for _ in range(g.int(0, 3)):
            ops.append(g.choice([["until", A, 65536], ["until", B, g.choice([2, 65536])], ["recv", g.choice([1, 3, 64])],
                                 ["until", A, g.int(0, 4)], ["exact", g.int(0, 3)]]))
        if g.chance(30):
            ops.insert(g.int(0, len(ops)), ["feed", fill(g.int(0, 3)) + g.choice([A, B, b""])])
        return {"t": "buf", "data": data, "cuts": cuts, "kind": g.choice(["byte", "obj"]), "ops": ops}
    if t == "buf":
        big = g.chance(4)
        alpha = g.choice([b"ab", b"ab\n", b"abc\r\n"])
        n = g.int(0, 4096 if g.chance(15) else 40)
        data = bytes(g.choice(alpha) for _ in range(min(n, 60))) if n <= 60 else \
            bytes(g.sample(st.lists(st.sampled_from(list(alpha)), min_size=n, max_size=n)))
        if big:
            data = data[:20] + b"a" * g.choice([65535, 65536, 65537, 70000]) + data[20:40]
        ncuts = g.int(0, min(len(data), 12))
        if big and g.bool():
            cuts = []
        else:
            cuts = sorted(g.int(1, max(len(data) - 1, 1)) for _ in range(ncuts))
        if g.chance(10):
            cuts = list(range(1, min(len(data), 200)))
        ops = []
        delims = [bytes([alpha[0]]), alpha[:2], alpha[-2:], bytes([alpha[0]]) * 2 + alpha[1:2], alpha[-1:]]
        for _ in range(g.int(1, 8)):
            k = g.weighted([(30, "recv"), (25, "exact"), (35, "until"), (10, "feed"), (12, "int")])
            if k == "int":
                ik = g.choice(["exact", "exact", "until", "recv"])
                inner = (["exact", g.choice([2, 3, 5, 9, 12, 33])] if ik == "exact" else
                         ["until", g.choice(delims), g.choice([6, 10, 50, 65536])] if ik == "until" else
                         ["recv", g.choice([1, 3, 64])])
                ops.append(["int", inner, g.int(0, 3), g.choice(["cancel", "error"])])
                continue
            if k == "recv":
                ops.append(["recv", g.choice([1, 2, 3, 7, 64, 65536, 70000])])
            elif k == "exact":
                ops.append(["exact", g.choice([0, 1, 2, 3, 5, 9, 33, 65536, 65537]) if big or g.chance(10)
                            else g.int(0, 12)])
            elif k == "until":
                ops.append(["until", g.choice(delims), g.choice([0, 1, 2, 3, 4, 6, 10, 50, 65536, 100000])])
            else:
                ops.append(["feed", bytes(g.choice(alpha) for _ in range(g.int(0, 5)))])
        return {"t": "buf", "data": data, "cuts": cuts, "kind": g.choice(["byte", "obj"]), "ops": ops}
    enc = g.choice(ENCS)
    if t == "textrecv":
        text = g.sample(st.text(_CP, max_size=12))
        if enc == "latin-1":
            text = "".join(ch for ch in text if ord(ch) < 256)
        n = len(text.encode(enc))
        cuts = sorted(g.int(0, n) for _ in range(g.int(0, min(n, 8))))
        if g.chance(15):
            cuts = list(range(1, n))
        return {"t": "textrecv", "text": text, "enc": enc, "cuts": cuts, "kind": g.choice(["byte", "obj"])}
    items = []
    for _ in range(g.int(1, 5)):
        s = g.sample(st.text(_CP, max_size=6))
        if enc == "latin-1":
            s = "".join(ch for ch in s if ord(ch) < 256)
        items.append(s)
    case = {"t": "textpipe", "items": items, "enc": enc}
    if g.bool():
        case["rechunk"] = sorted(g.int(0, 60) for _ in range(g.int(0, 10)))
    return case


_strategy = composite(_gen)


def strategy(tier):
    return _strategy()
