"""C02 Task group errors: siblings cancelled, every exception surfaces exactly once (engine: vf/interp.py, generator: vf/progen.py)."""
import os

from ..gen import composite
from ..interp import run_program
from ..progen import gen_program, profile

ID = "C02"
PREFIX = ('c02:',)
PROFILE = profile(group=16, spawn=20, start=8, catch=12, cancel=12, scope=8, forever=4, wait=4, ext=2, wrap=0, **{'raise': 10}, patterns={'cleanup_failure_under_outer_cancel': 2, 'shielded_group_failure': 1, 'group_shielded_after_failure': 1, 'shielded_start_caller_group_failure': 2, 'native_cancel_at_final_checkpoint': 2, 'native_cancel_after_prestart_failure': 2, '_chance': 32})
RULE = ('Hypothesis-generated task trees with failure-heavy weights (body and children raising tagged Boom(n) before, during or after being cancelled, from handlers and shielded cleanup, nested groups, start() children whose starter is cancelled while they unwind); non-trivial = a group with >= 2 distinct raisers, or a start() child raising after its caller was cancelled; distinct = distinct canonical JSON')
ASSUMPTIONS = ["reference semantics (mirror) evaluated on public attributes cancel_called/shield of every scope on the chain; the only private access is fetching a child's handle scope object at its first step", 'every indefinite wait sits in a harness guard scope cancelled after 40 cycles', "asyncio's FIFO ready queue is not permuted; schedules vary through generated delays, cancel placement, external loop callbacks and loop configuration"]
TECHNIQUE = 'Hypothesis-generated task-tree programs; multiset comparison of exception-group leaf identities against the recorded terminal exceptions'
LEVEL_TEXT = ("For every task group of every generated program: the multiset of non-cancellation leaves of what the block raises equals the body's plus the children's recorded terminal exceptions (identity, exactly once), raised as an exception group with the group scope cancelled; nothing raised if nothing failed, except an enclosing cancellation passing through. Exploration.")
LEVEL_NOTE = 'Trusted: unique tagged exception instances and the harness record of how each child ended.'
DESIGN_REF = "3/C02"


def budget(tier):
    return 24000 if tier == "quick" else 500000


_strategy = composite(lambda g: gen_program(g, PROFILE))


def strategy(tier):
    return _strategy()


def run_case(case):
    out, stats, w, err = run_program(case)
    if not os.environ.get("VF_ALL_RULES"):
        out.viols = [v for v in out.viols if v.rule.startswith(PREFIX) or v.rule in ("unexpected-exception", "hang")]
    out.nontrivial = bool(stats["group_with_2plus_raisers"] > 0 or stats["start_child_raised_after_caller_cancelled"] > 0)
    out.labels = [k for k, v in stats.items() if v] + ["config-" + case["config"]]
    if case.get("pat"):
        out.labels.append("pattern-" + case["pat"])
    return out
