"""C03 Level-triggered cancellation: nothing stays blocked in a cancelled scope (engine: vf/interp.py)."""
import os

from ..gen import composite
from ..interp import run_program
from ..progen import gen_program, profile

ID = "C03"
PREFIX = ("c03:",)
PROFILE = profile(scope=18, cancel=16, catch=12, wait=8, forever=5, sleep=8, group=8, spawn=8, shield=5, ext=3, patterns={'double_cancel': 2, 'sibling_double_cancel': 1, 'self_cancel_host_shielded': 2, 'unshield_from_nested': 2, '_chance': 30})
RULE = ("Hypothesis-generated task/scope/shield/group programs with blocking operations of several kinds and cancel() "
        "issued by the task itself, siblings, external loop callbacks, deadlines and before entry; non-trivial = some "
        "operation was interrupted after having blocked at least one cycle, or was entered in an already cancelled "
        "scope; distinct = distinct canonical JSON")
ASSUMPTIONS = [
    "reference semantics (mirror) evaluated on public attributes cancel_called/shield of every scope on the chain",
    "every indefinite wait sits in a harness guard scope cancelled after 40 cycles, so a hang is a violation",
    "latency bound B=4 cycles (measured 0..2 on the pinned tree); shields are toggled only by the scope's host task",
    "asyncio's FIFO ready queue is not permuted",
]
TECHNIQUE = "Hypothesis-generated programs on cycle-counting/virtual-time loops; bounded-latency and outcome rules against the mirror reference semantics"
LEVEL_TEXT = ("Every blocking operation of every generated program: interrupted within 4 cycles of its scope becoming "
              "effectively cancelled, again at every later checkpoint; never completes normally in a cancelled scope "
              "unless its result was available; no deadlock / busy loop. Exploration on stock, eager and uvloop.")
LEVEL_NOTE = "Trusted: mirror reference semantics (vf/interp.py Mirror), VLoop cycle/virtual-time accounting."
DESIGN_REF = "3/C03"


def budget(tier):
    return 24000 if tier == "quick" else 500000


_strategy = composite(lambda g: gen_program(g, PROFILE))


def strategy(tier):
    return _strategy()


def run_case(case):
    out, stats, w, err = run_program(case)
    if not os.environ.get("VF_ALL_RULES"):
        out.viols = [v for v in out.viols if v.rule.startswith(PREFIX) or v.rule == "unexpected-exception"]
    out.nontrivial = stats["interrupted_after_blocking"] > 0 or stats["op_entered_cancelled"] > 0
    out.labels = [k for k, v in stats.items() if v] + ["config-" + case["config"]]
    if case.get("pat"):
        out.labels.append("pattern-" + case["pat"])
    if w is not None and w.latencies:
        out.labels.append("latency-max-%d" % max(w.latencies))
    return out
