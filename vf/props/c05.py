"""C05 Leaving a cancel scope leaves no residue in the task or the loop (engine: vf/interp.py, generator: vf/progen.py)."""
import os

from ..gen import composite
from ..interp import run_program
from ..progen import gen_program, profile

ID = "C05"
PREFIX = ('c05:',)
PROFILE = profile(setdl=7, scope=24, cancel=18, catch=10, group=8, spawn=6, shield=4, ntimeout=9, ntg=6, sleep=12, forever=4, wait=3, ext=2, configs=['S', 'S', 'E', 'U'], native_ext=6, precancel=8, patterns={'double_cancel': 1, 'multi_delivery': 3, 'native_at_group_join': 2, 'native_in_cancelled_scope': 1, '_chance': 24})
RULE = ('Hypothesis-generated histories of scopes and groups entered and left in sequence and nested on one task with cancel timings giving 0..k re-deliveries, surrounded by asyncio.timeout / asyncio.TaskGroup probes on the virtual clock; scopes cancelled before they are entered; native Task.cancel() of child tasks by the harness (the count must then equal the number of those requests); non-trivial = a scope absorbed a cancellation and the residue check ran, or a native probe fired; distinct = distinct canonical JSON')
ASSUMPTIONS = ["reference semantics (mirror) evaluated on public attributes cancel_called/shield of every scope on the chain; the only private access is fetching a child's handle scope object at its first step", 'every indefinite wait sits in a harness guard scope cancelled after 40 cycles', "asyncio's FIFO ready queue is not permuted; schedules vary through generated delays, cancel placement, external loop callbacks and loop configuration"]
TECHNIQUE = 'Hypothesis-generated scope histories; residue invariants (Task.cancelling(), loop timers/callbacks) and native-construct contracts on a virtual clock'
LEVEL_TEXT = ("After every scope/group exit with no cancelled scope above: Task.cancelling() is 0; at program end no cancel-scope timer is armed and no delivery callback is queued after 3 drain cycles; asyncio.timeout raises TimeoutError at exactly its instant and never lets CancelledError escape; asyncio.TaskGroup raises its child's ExceptionGroup. Exploration (native probes on the virtual-time loops only).")
LEVEL_NOTE = "Trusted: VLoop's view of its own timer heap and ready queue; asyncio.timeout/TaskGroup semantics."
DESIGN_REF = "3/C05"


def budget(tier):
    return 24000 if tier == "quick" else 500000


_strategy = composite(lambda g: gen_program(g, PROFILE))


def strategy(tier):
    return _strategy()


def run_case(case):
    out, stats, w, err = run_program(case)
    if not os.environ.get("VF_ALL_RULES"):
        out.viols = [v for v in out.viols if v.rule.startswith(PREFIX) or v.rule == "unexpected-exception"]
    out.nontrivial = bool((stats["absorbed"] > 0 and stats["residue_checked"] > 0) or stats["native_timeout_fired"] > 0)
    out.labels = [k for k, v in stats.items() if v] + ["config-" + case["config"]]
    if case.get("pat"):
        out.labels.append("pattern-" + case["pat"])
    return out
