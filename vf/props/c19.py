"""C19 anyio.itertools / functools.reduce agree with the standard library (differential).

Case = {"fn": name, "seqs": [[...], ...], "kinds": ["s"|"a", ...], "p": {...params}}
Every case is one call compared with its stdlib twin on the same arguments.
"""
from __future__ import annotations

import asyncio
import functools
import itertools
import json
import operator

import anyio
import anyio.functools
import anyio.itertools as ait
from hypothesis import strategies as st

from ..gen import composite
from ..runner import Outcome

ID = "C19"
EXHAUSTIVE = True
EXHAUSTIVE_NOTE = ("quick: every element sequence over {0,1,2} up to length 4 (islice/tee: 3), every integer "
                   "parameter in -2..5 and None where optional, sync and async sources; thorough: length 5 and "
                   "parameters -2..6; all islice argument tuples of length 1..3")
RULE = ("one case = one call of an anyio.itertools function or functools.reduce compared with its stdlib twin; "
        "enumerated exhaustively over the small domain plus Hypothesis-generated longer inputs (ints, strings, "
        "tuples; sync lists, async iterator objects and closable async generators as sources); pair cases run two "
        "iterators side by side in two tasks alternating item by item; tee plans include pulls made in an already "
        "cancelled scope or cancelled from a loop callback while under way (the consumer carries on afterwards) and "
        "forks of a consumer (tee() of a tee iterator) at any point; one iterator object passed in several argument "
        "positions (alias cases); "
        "non-trivial = non-empty input whose result differs from the plain input sequence or that raises; "
        "distinct = distinct canonical JSON of (function, inputs, parameters, source kinds)")
ASSUMPTIONS = [
    "element types with reflexive equality (ints, strings, tuples); NaN-like values excluded",
    "callbacks are pure functions from a fixed table, async for anyio and plain for the stdlib",
    "infinite iterators (count, cycle, repeat(None)) are compared on a generated finite prefix",
    "Python 3.12 stdlib as the reference; batched(strict=True) (3.13) is emulated from its documentation",
]
TECHNIQUE = "exhaustive small-domain enumeration + Hypothesis inputs (+ atheris coverage-guided campaigns over the same strategy in thorough), differential against stdlib itertools/functools"
LEVEL_TEXT = ("Differential testing against the standard library: results (as lists) and exception classes must be "
              "equal for every enumerated and generated call; tee additionally checked over consumer interleavings "
              "(sequential plans and concurrent tasks) with a counting source. Exhaustive within the stated bounds, "
              "sampled beyond.")
LEVEL_NOTE = "Trusted: CPython's itertools/functools as reference; the emulation of batched(strict)."
DESIGN_REF = "3/C19"


def budget(tier):
    return 30000 if tier == "quick" else 400000


# ------------------------------------------------------------------ callback tables

FUN2 = {
    "add": operator.add,
    "mul": operator.mul,
    "max": max,
    "sub": operator.sub,
    "first": lambda a, b: a,
    "pair": lambda a, b: (a, b),
}
PRED = {
    "truthy": lambda x: bool(x),
    "even": lambda x: (x % 2 == 0) if isinstance(x, int) else (len(x) % 2 == 0),
    "lt2": lambda x: x < 2 if isinstance(x, int) else len(x) < 2,
    "true": lambda x: True,
    "false": lambda x: False,
}
KEY = {
    "parity": lambda x: (x % 2) if isinstance(x, int) else len(x) % 2,
    "const": lambda x: 0,
    "ident": lambda x: x,
    "none_even": lambda x: None if (x % 2 == 0 if isinstance(x, int) else len(x) % 2 == 0) else "odd",
    "falsy": lambda x: (0 if (x if isinstance(x, int) else len(x)) % 3 == 0 else ""),
}


def _a(f):
    async def af(*args):
        return f(*args)

    return af


class ASrc:
    """Async iterable over a list; counts __anext__ calls; optional yields per element."""

    def __init__(self, items, yields=0):
        self.items = list(items)
        self.i = 0
        self.calls = 0
        self.yields = yields

    def __aiter__(self):
        return self

    async def __anext__(self):
        self.calls += 1
        for _ in range(self.yields):
            await asyncio.sleep(0)
        if self.i >= len(self.items):
            raise StopAsyncIteration
        v = self.items[self.i]
        self.i += 1
        return v


class SSrc:
    def __init__(self, items):
        self.items = list(items)
        self.calls = 0

    def __iter__(self):
        for v in self.items:
            self.calls += 1
            yield v
        self.calls += 1


async def _agen(items):
    for v in items:
        yield v


def src(seq, kind):
    if kind == "g":
        return _agen(list(seq))     # a real async generator: closable, and finished once closed
    return ASrc(seq) if kind == "a" else list(seq)


_PACE = {}      # task -> list of pauses (loop cycles) taken after each item; used by the interleaved-pair cases


async def take(ait_, k=None):
    out = []
    it = ait_.__aiter__()
    pace = _PACE.get(asyncio.current_task())
    while k is None or len(out) < k:
        try:
            out.append(await it.__anext__())
        except StopAsyncIteration:
            break
        if pace:
            for _ in range(pace[len(out) % len(pace)]):
                await asyncio.sleep(0)
    if k is not None and hasattr(it, "aclose"):
        await it.aclose()
    return out


def stake(it, k=None):
    return list(it) if k is None else list(itertools.islice(it, k))


def _ref_batched(seq, n, strict):
    if n < 1:
        raise ValueError("n must be at least one")
    it = iter(seq)
    while batch := tuple(itertools.islice(it, n)):
        if strict and len(batch) != n:
            raise ValueError("batched(): incomplete batch")
        yield batch


MISSING = "<missing>"


def build(case):
    """Return (ref_thunk, real_coro_fn). Both return list results; may raise."""
    fn, seqs, kinds, p = case["fn"], case["seqs"], case["kinds"], case.get("p", {})

    def S(i):
        return src(seqs[i], kinds[i])

    k = p.get("k")
    if fn == "accumulate":
        f, init = p.get("f"), p.get("initial")
        if f is None:
            return (lambda: list(itertools.accumulate(seqs[0], initial=init)),
                    lambda: take(ait.accumulate(S(0), initial=init)))
        return (lambda: list(itertools.accumulate(seqs[0], FUN2[f], initial=init)),
                lambda: take(ait.accumulate(S(0), _a(FUN2[f]), initial=init)))
    if fn == "batched":
        n, strict = p["n"], p["strict"]
        if strict:
            return (lambda: list(_ref_batched(seqs[0], n, True)), lambda: take(ait.batched(S(0), n, strict=True)))
        return (lambda: list(itertools.batched(seqs[0], n)), lambda: take(ait.batched(S(0), n)))
    if fn == "chain":
        return (lambda: list(itertools.chain(*seqs)), lambda: take(ait.chain(*[S(i) for i in range(len(seqs))])))
    if fn == "chain.from_iterable":
        outer = p["outer"]
        inner = [S(i) for i in range(len(seqs))]
        return (lambda: list(itertools.chain.from_iterable(seqs)),
                lambda: take(ait.chain.from_iterable(ASrc(inner) if outer == "a" else _agen(inner) if outer == "g"
                                                     else inner)))
    if fn in ("combinations", "combinations_with_replacement"):
        r = p["r"]
        return (lambda: list(getattr(itertools, fn)(seqs[0], r)), lambda: take(getattr(ait, fn)(S(0), r)))
    if fn == "compress":
        return (lambda: list(itertools.compress(seqs[0], seqs[1])), lambda: take(ait.compress(S(0), S(1))))
    if fn == "count":
        return (lambda: stake(itertools.count(p["start"], p["step"]), k),
                lambda: take(ait.count(p["start"], p["step"]), k))
    if fn == "cycle":
        return (lambda: stake(itertools.cycle(seqs[0]), k), lambda: take(ait.cycle(S(0)), k))
    if fn in ("dropwhile", "takewhile", "filterfalse"):
        pr = PRED[p["pred"]]
        return (lambda: list(getattr(itertools, fn)(pr, seqs[0])), lambda: take(getattr(ait, fn)(_a(pr), S(0))))
    if fn == "groupby":
        key = p.get("key")
        if key is None:
            return (lambda: [(a, list(b)) for a, b in itertools.groupby(seqs[0])],
                    lambda: take(ait.groupby(S(0))))
        return (lambda: [(a, list(b)) for a, b in itertools.groupby(seqs[0], KEY[key])],
                lambda: take(ait.groupby(S(0), _a(KEY[key]))))
    if fn == "islice":
        args = p["args"]
        return (lambda: list(itertools.islice(seqs[0], *args)), lambda: take(ait.islice(S(0), *args)))
    if fn == "pairwise":
        return (lambda: list(itertools.pairwise(seqs[0])), lambda: take(ait.pairwise(S(0))))
    if fn == "permutations":
        if "r" in p:
            return (lambda: list(itertools.permutations(seqs[0], p["r"])),
                    lambda: take(ait.permutations(S(0), p["r"])))
        return (lambda: list(itertools.permutations(seqs[0])), lambda: take(ait.permutations(S(0))))
    if fn == "product":
        rep = p.get("repeat", 1)
        return (lambda: list(itertools.product(*seqs, repeat=rep)),
                lambda: take(ait.product(*[S(i) for i in range(len(seqs))], repeat=rep)))
    if fn == "repeat":
        if p["times"] is None:
            return (lambda: stake(itertools.repeat(p["elem"]), k), lambda: take(ait.repeat(p["elem"]), k))
        return (lambda: list(itertools.repeat(p["elem"], p["times"])),
                lambda: take(ait.repeat(p["elem"], p["times"])))
    if fn == "starmap":
        f = FUN2[p["f"]]
        rows = [[x, i] for i, x in enumerate(seqs[0])]
        rk = p.get("rowkind", "s")

        def rows_real():
            rr = [ASrc(r) if rk == "a" else tuple(r) for r in rows]
            return ASrc(rr) if kinds[0] == "a" else rr

        return (lambda: list(itertools.starmap(f, rows)), lambda: take(ait.starmap(_a(f), rows_real())))
    if fn == "alias":
        # ONE iterator object passed in several argument positions (the grouper recipe zip_longest(*[it]*n)): the
        # stdlib twin gets one plain iterator in the same positions
        inner, n, kind, seq = p["inner"], p["n"], p["kind"], seqs[0]

        def real_src():
            if kind == "a":
                return ASrc(seq)
            if kind == "g":
                return _agen(list(seq))
            return iter(list(seq))

        if inner == "zip_longest":
            fv = p.get("fill")
            return (lambda: (lambda it: list(itertools.zip_longest(*[it] * n, fillvalue=fv)))(iter(seq)),
                    lambda: (lambda it: take(ait.zip_longest(*[it] * n, fillvalue=fv)))(real_src()))
        if inner == "chain":
            return (lambda: (lambda it: list(itertools.chain(*[it] * n)))(iter(seq)),
                    lambda: (lambda it: take(ait.chain(*[it] * n)))(real_src()))
        if inner == "compress":
            return (lambda: (lambda it: list(itertools.compress(it, it)))(iter(seq)),
                    lambda: (lambda it: take(ait.compress(it, it)))(real_src()))
        raise AssertionError(inner)
    if fn == "zip_longest":
        fv = p.get("fill")
        return (lambda: list(itertools.zip_longest(*seqs, fillvalue=fv)),
                lambda: take(ait.zip_longest(*[S(i) for i in range(len(seqs))], fillvalue=fv)))
    if fn == "reduce":
        f = FUN2[p["f"]]
        if p["initial"] == MISSING:
            async def real():
                return [await anyio.functools.reduce(_a(f), S(0))]
            return (lambda: [functools.reduce(f, seqs[0])], real)

        async def real2():
            return [await anyio.functools.reduce(_a(f), S(0), p["initial"])]
        return (lambda: [functools.reduce(f, seqs[0], p["initial"])], real2)
    raise AssertionError(fn)


# ------------------------------------------------------------------ tee


async def run_tee(case, out):
    seq, kind, n, plan, mode = case["seqs"][0], case["kinds"][0], case["p"]["n"], case["p"]["plan"], case["p"]["mode"]
    try:
        ref = itertools.tee(seq, n)
        ref_exc = None
    except Exception as e:  # noqa: BLE001
        ref, ref_exc = None, type(e)
    source = ASrc(seq, yields=case["p"].get("yields", 0)) if kind == "a" else SSrc(seq)
    try:
        its = ait.tee(source, n)
        real_exc = None
    except Exception as e:  # noqa: BLE001
        its, real_exc = None, type(e)
    if ref_exc or real_exc:
        if ref_exc is not real_exc:
            out.bad("tee-error-class", f"ref:{ref_exc and ref_exc.__name__}|real:{real_exc and real_exc.__name__}")
        return
    if len(its) != len(ref):
        out.bad("tee-count", f"{len(its)}!={len(ref)}")
        return
    its = list(its)
    fork = case["p"].get("fork")
    if fork and its:
        # tee() of a tee iterator made before anything was consumed: the clones are further full consumers
        try:
            its = list(its) + list(ait.tee(its[fork[0] % len(its)], fork[1]))
        except Exception as e:  # noqa: BLE001
            out.bad("tee-fork-refused", type(e).__name__, f"{case}")
            return
        out.labels.append("tee-fork")
    got = [[] for _ in its]
    done = [False] * len(its)
    cancelled_pulls = [0]
    if mode == "plan":
        for c in plan:
            if not its:
                break
            code = c // 100
            doomed = code == 1
            c %= 100
            c %= len(its)
            if code == 3:
                # fork consumer c at its present position: the clone must see exactly what c still has ahead
                if len(its) < 8:
                    try:
                        (clone,) = ait.tee(its[c], 1)
                    except Exception as e:  # noqa: BLE001
                        out.bad("tee-fork-refused", type(e).__name__, f"{case}")
                        return
                    its.append(clone)
                    got.append(list(got[c]))
                    done.append(done[c])
                    if "tee-fork-later" not in out.labels:
                        out.labels.append("tee-fork-later")
                continue
            if done[c]:
                continue
            if code == 2:
                # the scope is cancelled from a loop callback while the pull is under way (in the lock's shielded
                # checkpoint or inside the source's __anext__); the consumer carries on afterwards
                cancelled_pulls[0] += 1
                with anyio.CancelScope() as sc:
                    asyncio.get_running_loop().call_soon(sc.cancel)
                    try:
                        got[c].append(await its[c].__anext__())
                    except StopAsyncIteration:
                        done[c] = True
                continue
            if doomed:
                # a pull inside an already cancelled scope: it either raises (then nothing may have been consumed)
                # or hands out the next item; the consumer carries on afterwards
                cancelled_pulls[0] += 1
                with anyio.CancelScope() as sc:
                    sc.cancel()
                    try:
                        got[c].append(await its[c].__anext__())
                    except StopAsyncIteration:
                        done[c] = True
                continue
            try:
                got[c].append(await its[c].__anext__())
            except StopAsyncIteration:
                done[c] = True
        for c in range(len(its)):
            while not done[c]:
                try:
                    got[c].append(await its[c].__anext__())
                except StopAsyncIteration:
                    done[c] = True
    else:
        async def consumer(c, delay):
            for _ in range(delay):
                await asyncio.sleep(0)
            async for v in its[c]:
                got[c].append(v)
                for _ in range(plan[c % len(plan)] % 3 if plan else 0):
                    await asyncio.sleep(0)
        async with anyio.create_task_group() as tg:
            for c in range(len(its)):
                tg.start_soon(consumer, c, (plan[c % len(plan)] // 3) % 3 if plan else 0)
    for c in range(len(its)):
        if got[c] != list(seq):
            out.bad("tee-consumer-sequence", mode, f"consumer {c} saw {got[c]} expected {seq}")
    if cancelled_pulls[0]:
        out.labels.append("tee-cancelled-pull")
    if its and source.calls != len(seq) + 1 and not cancelled_pulls[0]:
        out.bad("tee-source-consumed-once", mode, f"source advanced {source.calls} times for {len(seq)} items")


async def run_pair(case, out):
    """Two iterators (of the same or of different functions) alive at once, consumed by two tasks that alternate item
    by item: each must still agree with its stdlib twin (no state shared between instances)."""
    subs = [case["a"], case["b"]]
    refs = []
    for sub in subs:
        ref_thunk, _ = build(sub)
        try:
            refs.append((ref_thunk(), None))
        except Exception as e:  # noqa: BLE001
            refs.append((None, e))
    results = [None, None]

    async def runner(i):
        _PACE[asyncio.current_task()] = case["pace"][i] or None
        try:
            for _ in range(case["delay"][i]):
                await asyncio.sleep(0)
            _, real_fn = build(subs[i])
            try:
                results[i] = (await real_fn(), None)
            except Exception as e:  # noqa: BLE001
                results[i] = (None, e)
        finally:
            _PACE.pop(asyncio.current_task(), None)

    async with anyio.create_task_group() as tg:
        tg.start_soon(runner, 0)
        tg.start_soon(runner, 1)
    for i, sub in enumerate(subs):
        (ref, ref_exc), (real, real_exc) = refs[i], results[i]
        if ref_exc is not None or real_exc is not None:
            if type(ref_exc) is not type(real_exc):
                out.bad("error-class", f"pair:{sub['fn']}:ref={type(ref_exc).__name__}|real={type(real_exc).__name__}",
                        f"{case} ref={ref_exc!r} real={real_exc!r}")
        elif ref != real:
            out.bad("result", "pair:" + sub["fn"], f"{case}: iterator {i} ref={ref!r} real={real!r}")


# ------------------------------------------------------------------ running

_loop = None


def _get_loop():
    global _loop
    if _loop is None or _loop.is_closed():
        _loop = asyncio.new_event_loop()
    return _loop


def run_case(case) -> Outcome:
    out = Outcome()
    loop = _get_loop()
    fn = case["fn"]
    if fn == "tee":
        loop.run_until_complete(run_tee(case, out))
        out.nontrivial = len(case["seqs"][0]) > 0 and case["p"]["n"] >= 2
        out.labels.append("tee")
        return out
    if fn == "pair":
        loop.run_until_complete(run_pair(case, out))
        out.nontrivial = True
        out.labels += ["pair", "pair:" + case["a"]["fn"]]
        return out
    ref_thunk, real_fn = build(case)
    try:
        ref, ref_exc = ref_thunk(), None
    except Exception as e:  # noqa: BLE001
        ref, ref_exc = None, e
    try:
        real, real_exc = loop.run_until_complete(real_fn()), None
    except Exception as e:  # noqa: BLE001
        real, real_exc = None, e
    if ref_exc is not None or real_exc is not None:
        if type(ref_exc) is not type(real_exc):
            out.bad("error-class", f"{fn}:ref={type(ref_exc).__name__}|real={type(real_exc).__name__}",
                    f"{case} ref={ref_exc!r} real={real_exc!r}")
        out.labels.append("raises")
        out.nontrivial = True
    else:
        if ref != real:
            out.bad("result", fn, f"{case} ref={ref!r} real={real!r}")
        out.nontrivial = any(len(s) for s in case["seqs"]) and ref != list(case["seqs"][0] if case["seqs"] else [])
        if fn in ("count", "repeat"):
            out.nontrivial = True
    out.labels.append(fn)
    if "a" in case["kinds"]:
        out.labels.append("async-source")
    return out


# ------------------------------------------------------------------ enumeration


def _seqs(maxlen, alphabet=(0, 1, 2)):
    for n in range(maxlen + 1):
        for t in itertools.product(alphabet, repeat=n):
            yield list(t)


def enumerate_cases(tier):
    yield from _enumerate_single(tier)
    yield from _enumerate_pairs(tier)
    yield from _enumerate_alias(tier)


def _enumerate_alias(tier):
    for seq in _seqs(5 if tier == "quick" else 6, (0, 1)):
        for kind in ("a", "g", "i"):
            for n in (2, 3):
                for inner in ("zip_longest", "chain"):
                    yield {"fn": "alias", "seqs": [seq], "kinds": ["a"],
                           "p": {"inner": inner, "n": n, "kind": kind, "fill": "-"}}
            yield {"fn": "alias", "seqs": [seq], "kinds": ["a"], "p": {"inner": "compress", "n": 2, "kind": kind}}


def _enumerate_pairs(tier):
    """Every function twice at the same time: a fixed set of small inputs per function (closable generator sources),
    all ordered pairs, both start orders, two pacings."""
    by_fn = {}
    for case in _enumerate_single("quick"):
        fn = case["fn"]
        if fn == "tee" or case["kinds"] == [] or case["kinds"][0] != "a":
            continue
        lst = by_fn.setdefault(fn, [])
        size = sum(len(x) for x in case["seqs"])
        if size >= 2 and len(lst) < (4 if tier == "quick" else 6) and all(len(x) >= 1 for x in case["seqs"]) \
                and not any(sum(len(x) for x in c["seqs"]) == size for c in lst):      # (inputs of different lengths)
            c = json.loads(json.dumps(case))
            c["kinds"] = ["g"] * len(c["kinds"])
            if "outer" in c["p"]:
                c["p"]["outer"] = "g"
            lst.append(c)
    for fn in sorted(by_fn):
        for a in by_fn[fn]:
            for b in by_fn[fn]:
                for delay in ([0, 0], [0, 1], [1, 0]):
                    for pace in ([[1], [1]], [[1], [3]], [[3], [1]]):
                        yield {"fn": "pair", "a": a, "b": b, "seqs": [], "kinds": [], "pace": pace, "delay": delay}


def _enumerate_single(tier):
    L = 4 if tier == "quick" else 5
    ints = list(range(-2, 6 if tier == "quick" else 7))
    optints = [None] + ints
    for kind in ("s", "a"):
        K = [kind]
        for s in _seqs(L):
            for f in (None, "add", "mul", "max", "sub"):
                for init in (None, 0, 2):
                    yield {"fn": "accumulate", "seqs": [s], "kinds": K, "p": {"f": f, "initial": init}}
            for n in optints:
                for strict in (False, True):
                    yield {"fn": "batched", "seqs": [s], "kinds": K, "p": {"n": n, "strict": strict}}
            for r in optints:
                if len(s) <= 4 and (r is None or r <= 4):
                    yield {"fn": "combinations", "seqs": [s], "kinds": K, "p": {"r": r}}
                    yield {"fn": "combinations_with_replacement", "seqs": [s], "kinds": K, "p": {"r": r}}
                    yield {"fn": "permutations", "seqs": [s], "kinds": K, "p": {"r": r}}
            yield {"fn": "permutations", "seqs": [s], "kinds": K, "p": {}} if len(s) <= 4 else \
                {"fn": "pairwise", "seqs": [s], "kinds": K, "p": {}}
            for pr in PRED:
                for fn in ("dropwhile", "takewhile", "filterfalse"):
                    yield {"fn": fn, "seqs": [s], "kinds": K, "p": {"pred": pr}}
            for key in (None, "parity", "const", "ident", "none_even", "falsy"):
                yield {"fn": "groupby", "seqs": [s], "kinds": K, "p": {"key": key}}
            # elements that are None / falsy themselves
            yield {"fn": "groupby", "seqs": [[None if x == 0 else x for x in s]], "kinds": K, "p": {"key": None}}
            yield {"fn": "pairwise", "seqs": [[None if x == 0 else x for x in s]], "kinds": K, "p": {}}
            yield {"fn": "zip_longest", "seqs": [[None if x == 0 else x for x in s], [7]], "kinds": K + ["s"], "p": {"fill": None}}
            yield {"fn": "pairwise", "seqs": [s], "kinds": K, "p": {}}
            yield {"fn": "cycle", "seqs": [s], "kinds": K, "p": {"k": 2 * len(s) + 3}}
            for f in ("add", "mul", "pair"):
                yield {"fn": "starmap", "seqs": [s], "kinds": K, "p": {"f": f, "rowkind": kind}}
                for init in (MISSING, 0, 2):
                    yield {"fn": "reduce", "seqs": [s], "kinds": K, "p": {"f": f, "initial": init}}
        # islice: all argument tuples
        for s in _seqs(L - 1):
            for a in optints:
                yield {"fn": "islice", "seqs": [s], "kinds": K, "p": {"args": [a]}}
                for b in optints:
                    yield {"fn": "islice", "seqs": [s], "kinds": K, "p": {"args": [a, b]}}
                    for c in optints:
                        yield {"fn": "islice", "seqs": [s], "kinds": K, "p": {"args": [a, b, c]}}
        # two/three-iterable functions
        for s1 in _seqs(3):
            for s2 in _seqs(3, (0, 1)):
                for k2 in ("s", "a"):
                    KK = [kind, k2]
                    yield {"fn": "compress", "seqs": [s1, s2], "kinds": KK, "p": {}}
                    yield {"fn": "chain", "seqs": [s1, s2], "kinds": KK, "p": {}}
                    yield {"fn": "chain.from_iterable", "seqs": [s1, s2], "kinds": KK, "p": {"outer": kind}}
                    for fv in (None, 9):
                        yield {"fn": "zip_longest", "seqs": [s1, s2], "kinds": KK, "p": {"fill": fv}}
                    if len(s1) <= 2 and len(s2) <= 2:
                        for rep in (-1, 0, 1, 2):
                            yield {"fn": "product", "seqs": [s1, s2], "kinds": KK, "p": {"repeat": rep}}
        for s1 in _seqs(2):
            for rep in (-1, 0, 1, 2, 3):
                yield {"fn": "product", "seqs": [s1], "kinds": K, "p": {"repeat": rep}}
            yield {"fn": "chain", "seqs": [s1, [7], s1], "kinds": [kind, "s", "a"], "p": {}}
            yield {"fn": "zip_longest", "seqs": [s1, [7], []], "kinds": [kind, "a", "s"], "p": {"fill": None}}
        yield {"fn": "chain", "seqs": [], "kinds": [], "p": {}}
        yield {"fn": "zip_longest", "seqs": [], "kinds": [], "p": {"fill": None}}
        yield {"fn": "product", "seqs": [], "kinds": [], "p": {"repeat": 1}}
        yield {"fn": "chain.from_iterable", "seqs": [], "kinds": [], "p": {"outer": kind}}
        # tee: all plans over up to 3 consumers for short sequences
        for s in _seqs(3):
            for n in (-1, 0, 1, 2, 3):
                if n <= 1:
                    yield {"fn": "tee", "seqs": [s], "kinds": K, "p": {"n": n, "plan": [], "mode": "plan"}}
                    continue
                steps = (len(s) + 1) * n
                for plan in itertools.product(range(n), repeat=min(steps, 5 if tier == "quick" else 6)):
                    yield {"fn": "tee", "seqs": [s], "kinds": K, "p": {"n": n, "plan": list(plan), "mode": "plan"}}
    for start in ints:
        for step in ints:
            yield {"fn": "count", "seqs": [], "kinds": [], "p": {"start": start, "step": step, "k": 5}}
    for times in optints:
        yield {"fn": "repeat", "seqs": [], "kinds": [], "p": {"elem": 7, "times": times, "k": 4}}


# ------------------------------------------------------------------ Hypothesis: longer inputs


def _gen(g):
    if g.chance(15):
        a, b = _gen1(g, closable=True), _gen1(g, closable=True)
        if a["fn"] not in ("tee", "alias") and b["fn"] not in ("tee", "alias"):
            if g.chance(65):
                b = dict(_gen1(g, force=a["fn"], closable=True))
            return {"fn": "pair", "a": a, "b": b, "seqs": [], "kinds": [],
                    "pace": [[g.int(0, 2) for _ in range(g.int(0, 3))] for _ in range(2)],
                    "delay": [g.int(0, 2), g.int(0, 2)]}
    return _gen1(g)


def _gen1(g, force=None, closable=False):
    ek = g.choice(["int", "int", "str", "tuple"])
    if ek == "int":
        elem = st.integers(-3, 9)
    elif ek == "str":
        elem = st.text(alphabet="abc", max_size=3)
    else:
        elem = st.tuples(st.integers(0, 2), st.integers(0, 2))

    def seq(maxlen=12):
        return g.sample(st.lists(elem, max_size=maxlen))

    def kind():
        return g.choice(["s", "a", "g", "g"] if closable else ["s", "a", "s", "a", "g"])

    optint = lambda: g.choice([None, -3, -1, 0, 1, 2, 3, 4, 7, 13])  # noqa: E731
    fn = g.choice(["accumulate", "batched", "chain", "chain.from_iterable", "combinations",
                   "combinations_with_replacement", "compress", "count", "cycle", "dropwhile", "filterfalse",
                   "groupby", "islice", "pairwise", "permutations", "product", "repeat", "starmap", "tee",
                   "takewhile", "zip_longest", "reduce", "tee", "islice"])
    if force is None and g.chance(5):
        return {"fn": "alias", "seqs": [g.sample(st.lists(st.integers(0, 3), max_size=9))], "kinds": ["a"],
                "p": {"inner": g.choice(["zip_longest", "zip_longest", "chain", "compress"]), "n": g.int(2, 4),
                      "kind": g.choice(["a", "g", "i"]), "fill": g.choice([None, "-"])}}
    if force is not None:
        fn = force
    if fn == "accumulate":
        f = g.choice([None, "add", "max", "first", "pair"] + (["mul", "sub"] if ek == "int" else []))
        s = seq()
        init = g.choice([None] + (s[:1] if s else []))
        return {"fn": fn, "seqs": [s], "kinds": [kind()], "p": {"f": f, "initial": init}}
    if fn == "batched":
        return {"fn": fn, "seqs": [seq(20)], "kinds": [kind()], "p": {"n": optint(), "strict": g.bool()}}
    if fn in ("chain", "zip_longest"):
        n = g.int(0, 4)
        p = {} if fn == "chain" else {"fill": g.choice([None, 0, "z"])}
        return {"fn": fn, "seqs": [seq(6) for _ in range(n)], "kinds": [kind() for _ in range(n)], "p": p}
    if fn == "chain.from_iterable":
        n = g.int(0, 4)
        return {"fn": fn, "seqs": [seq(6) for _ in range(n)], "kinds": [kind() for _ in range(n)],
                "p": {"outer": kind()}}
    if fn in ("combinations", "combinations_with_replacement", "permutations"):
        p = {"r": g.choice([None, -1, 0, 1, 2, 3, 4, 6])}
        if fn == "permutations" and g.chance(20):
            p = {}
        return {"fn": fn, "seqs": [seq(5)], "kinds": [kind()], "p": p}
    if fn == "compress":
        return {"fn": fn, "seqs": [seq(), g.sample(st.lists(st.integers(0, 1), max_size=12))],
                "kinds": [kind(), kind()], "p": {}}
    if fn == "count":
        return {"fn": fn, "seqs": [], "kinds": [], "p": {"start": g.int(-50, 50), "step": g.int(-7, 7), "k": g.int(0, 12)}}
    if fn == "cycle":
        return {"fn": fn, "seqs": [seq(6)], "kinds": [kind()], "p": {"k": g.int(0, 25)}}
    if fn in ("dropwhile", "takewhile", "filterfalse"):
        return {"fn": fn, "seqs": [seq(20)], "kinds": [kind()], "p": {"pred": g.choice(list(PRED))}}
    if fn == "groupby":
        return {"fn": fn, "seqs": [g.sample(st.lists(elem, max_size=20)) if ek != "int" else
                                   g.sample(st.lists(st.integers(0, 3), max_size=20))],
                "kinds": [kind()], "p": {"key": g.choice([None, "parity", "const", "ident", "none_even", "falsy"])}}
    if fn == "islice":
        n = g.int(1, 3)
        vals = [None, -1, 0, 1, 2, 3, 5, 8, 13, 40]
        lo = g.choice([0, 0, 8, 16, 24])        # long inputs too: several selected elements with start > 0 and step >= 3
        return {"fn": fn, "seqs": [g.sample(st.lists(elem, min_size=lo, max_size=lo + 16))], "kinds": [kind()],
                "p": {"args": [g.choice(vals) for _ in range(n)]}}
    if fn == "pairwise":
        return {"fn": fn, "seqs": [seq(20)], "kinds": [kind()], "p": {}}
    if fn == "product":
        n = g.int(0, 3)
        return {"fn": fn, "seqs": [seq(3) for _ in range(n)], "kinds": [kind() for _ in range(n)],
                "p": {"repeat": g.choice([-1, 0, 1, 1, 2])}}
    if fn == "repeat":
        return {"fn": fn, "seqs": [], "kinds": [], "p": {"elem": g.sample(elem), "times": optint(), "k": g.int(0, 9)}}
    if fn == "starmap":
        return {"fn": fn, "seqs": [g.sample(st.lists(st.integers(-3, 9), max_size=12))], "kinds": [kind()],
                "p": {"f": g.choice(["add", "mul", "pair", "max"]), "rowkind": kind()}}
    if fn == "reduce":
        f = g.choice(["add", "max", "first", "pair"] + (["mul", "sub"] if ek == "int" else []))
        s = seq()
        init = g.choice([MISSING] + (s[:1] if s else []) + ([0] if ek == "int" else []))
        return {"fn": fn, "seqs": [s], "kinds": [kind()], "p": {"f": f, "initial": init}}
    if fn == "tee":
        n = g.choice([-1, 0, 1, 2, 2, 3, 3, 4])
        mode = g.choice(["plan", "tasks", "tasks"])
        plan = [g.int(0, 8) + g.weighted([(76, 0), (8, 100), (8, 200), (8, 300)]) for _ in range(g.int(0, 24))]
        p = {"n": n, "plan": plan, "mode": mode, "yields": g.int(0, 3)}
        if g.chance(30):
            p["fork"] = [g.int(0, 3), g.int(1, 3)]
        return {"fn": fn, "seqs": [seq(8)], "kinds": [kind()], "p": p}
    raise AssertionError(fn)


_strategy = composite(_gen)


def strategy(tier):
    return _strategy()
