"""C20 Async lru_cache: right value, single flight, bounded retention.

Concurrent case = {"kind": "conc", "config": S|E|U, "maxsize": None|0..3, "typed": bool, "ttl": None|2, "ac": bool,
                   "outcomes": ["ok"|"boom", ...],            # outcome of the n-th execution of the wrapped function
                   "callers": [[delay, key], ...],             # one call per caller task, key index into KEYS
                   "ctl": [["open", d, i] | ["cancel", d, caller] | ["sleep", t]]}
Sequential case = {"kind": "seq", "maxsize": ..., "typed": bool, "keys": [key index, ...]}   differential vs functools
"""
from __future__ import annotations

import asyncio
import functools

import anyio
from anyio import Event
from anyio.functools import lru_cache

from ..actors import run_sim
from ..gen import composite
from ..loops import run_on
from ..runner import Outcome

ID = "C20"
RULE = ("Hypothesis-generated histories: up to 6 concurrent callers over a pool of 4 keys (plus 1 vs 1.0 for typed), the "
        "wrapped function gated per execution (returns a fresh token, raises Boom, or is cancelled), a controller opening "
        "gates in any order, cancelling callers and advancing virtual time (ttl); plus sequential histories compared "
        "with functools.lru_cache, and sequential histories in which some calls fail (retention, internal errors and "
        "provenance judged); non-trivial = two or more callers in flight on different keys with the cache full, "
        "or a failing in-flight call with a waiter queued on it; distinct = distinct canonical JSON")
ASSUMPTIONS = [
    "maxsize=0 means no caching (as the code documents and as in the stdlib): only value provenance is demanded there",
    "sequential differential with functools.lru_cache only for failure-free histories without ttl",
    "known finding F3 is recognised by a structural precondition computed from the harness' own log: maxsize >= 1 and "
    "either a computation failed or was cancelled earlier in the history, or a computation started while another call "
    "was in flight after more than maxsize distinct keys had been used",
]
TECHNIQUE = ("Hypothesis-generated concurrent histories with gated executions on a virtual-time loop; provenance / "
             "single-flight / independence / staleness / retention invariants; sequential differential vs functools.lru_cache")
LEVEL_TEXT = ("Invariants over generated histories: every result is a token (or exception) produced by an execution for "
              "an equal key, never an internal error; at most one execution per key in progress; calls for different "
              "keys do not block each other; nothing expired is served; at quiescence at most maxsize results are "
              "served without executing; sequential histories agree call by call with functools.lru_cache. Exploration; "
              "F3 histories are reported as known finding by structural signature.")
LEVEL_NOTE = "Trusted: unique tokens, the harness' execution log, functools.lru_cache as sequential reference."
DESIGN_REF = "3/C20"

KEYS = ["a", "b", "c", "d", 1, 1.0]


class Boom(Exception):
    pass


def budget(tier):
    return 20000 if tier == "quick" else 400000


def _gen(g):
    if g.chance(10):
        n = g.int(2, 12)
        return {"kind": "seqf", "maxsize": g.choice([1, 1, 2, 3]), "keys": [g.int(0, 3) for _ in range(n)],
                "fails": [g.chance(30) for _ in range(n)]}
    if g.chance(5):
        # targeted shape: one key with three or more concurrent callers (its lock sees a queue), later two new keys
        # called while the first of them is still computing: the second must not wait for the first
        callers = [[0, 0, False], [0, 0, False], [g.int(0, 1), 0, False]] + ([[1, 0, False]] if g.bool() else []) \
            + [[g.int(6, 8), 1, False], [g.int(8, 10), 2, False]] + ([[g.int(9, 11), 3, False]] if g.bool() else [])
        return {"kind": "conc", "config": g.choice(["S", "S", "E", "U"]), "maxsize": g.choice([None, None, 3]),
                "typed": False, "ttl": None, "ac": g.chance(30), "outcomes": ["ok"],
                "callers": callers, "ctl": [["open", 2, 0], ["open", g.int(22, 26), 0]],
                "nest": 0}
    if g.chance(20):
        typed = g.bool()
        pool = [0, 1, 2, 3] + (([4, 5] if typed else [g.choice([4, 5])]) if g.bool() else [])
        case = {"kind": "seq", "maxsize": g.choice([None, 0, 1, 2, 3]), "typed": typed,
                "keys": [g.choice(pool) for _ in range(g.int(1, 16))],
                "kw": [g.chance(30) for _ in range(16)]}
        v = g.weighted([(70, "lru"), (12, "cache"), (18, "method")])
        if v == "cache":
            case.update(deco="cache", maxsize=None, typed=False)
            case["keys"] = [4 if k == 5 else k for k in case["keys"]]     # (1 and 1.0 are not mixed when untyped)
        elif v == "method":
            case["inst"] = [g.int(0, 1) for _ in range(8)]
        return case
    if g.chance(6):
        # targeted shape (ttl): a cached result expires, one caller starts the refresh, others queue behind it, and the
        # refresh fails or is cancelled
        fail = g.choice(["boom", "cancel"])
        callers = [[0, 0, False], [7, 0, False], [g.int(7, 9), 0, False]]
        if g.bool():
            callers.append([g.int(7, 10), g.choice([0, 1]), False])
        ctl = [["open", 1, 0], ["open", 2, 0], ["sleep", 3]]       # (the second "open" only lets two cycles pass)
        ctl.append(["open", g.int(3, 5), 0] if fail == "boom" else ["cancel", g.int(3, 5), 1])
        for _ in range(g.int(0, 3)):
            ctl.append(g.choice([["open", g.int(0, 2), 0], ["sleep", g.choice([1, 3])]]))
        return {"kind": "conc", "config": g.choice(["S", "E"]), "maxsize": g.choice([None, 1, 2, 3]), "typed": False,
                "ttl": 2, "ac": g.chance(30), "outcomes": ["ok", "boom" if fail == "boom" else "ok", "ok", "ok"],
                "callers": callers, "ctl": ctl, "nest": g.choice([0, 0, 1])}
    typed = g.chance(25)
    nkeys = g.int(2, 4)
    pool = list(range(nkeys)) + ([4, 5] if typed or g.chance(15) else [])
    ncall = g.int(2, 6)
    usekw = g.chance(25)
    ttl = g.choice([None, None, None, 2])
    # with a ttl, calls are spread over more cycles so that some arrive after the controller let time pass
    callers = [[g.int(0, 12 if ttl else 4), g.choice(pool), usekw and g.chance(50)] for _ in range(ncall)]
    ctl = []
    for _ in range(g.int(2, 12)):
        k = g.weighted([(60, "open"), (20, "cancel"), (20 if ttl else 4, "sleep")])
        if k == "open":
            ctl.append(["open", g.int(0, 3), g.int(0, 3)])
        elif k == "cancel":
            ctl.append(["cancel", g.int(0, 3), g.int(0, ncall - 1)])
        else:
            ctl.append(["sleep", g.choice([1, 1, 3])])
    return {"kind": "conc", "config": g.choice(["S", "S", "E"]) if ttl else g.choice(["S", "S", "E", "U"]),
            "maxsize": g.choice([None, 0, 1, 1, 2, 2, 3]), "typed": typed, "ttl": ttl, "ac": g.chance(30),
            "outcomes": [g.weighted([(75, "ok"), (25, "boom")]) for _ in range(g.int(1, 6))],
            "callers": callers, "ctl": ctl, "nest": g.choice([0, 0, 1]), "residue": g.chance(12)}


_strategy = composite(_gen)


def strategy(tier):
    return _strategy()


def canon(key, typed, kw=False):
    c = (key, type(key)) if typed else key
    return ("kw", c) if kw else c


# ------------------------------------------------------------------ sequential differential


def run_seq(case, out):
    maxsize, typed = case["maxsize"], case["typed"]
    calls = [0]

    @functools.lru_cache(maxsize=maxsize, typed=typed)
    def ref(k):
        calls[0] += 1
        return ("ref", calls[0])

    deco = case.get("deco", "lru")
    if deco == "cache":
        ref = functools.cache(ref.__wrapped__)
    insts = case.get("inst")

    class RefHolder:
        @functools.lru_cache(maxsize=maxsize, typed=typed)
        def m(self, k):
            calls[0] += 1
            return ("ref", calls[0])

    async def main(loop):
        execs = [0]

        async def impl(k):
            execs[0] += 1
            return ("tok", execs[0])

        fn = anyio.functools.cache(impl) if deco == "cache" else lru_cache(maxsize=maxsize, typed=typed)(impl)

        class Holder:
            @lru_cache(maxsize=maxsize, typed=typed)
            async def m(self, k):
                execs[0] += 1
                return ("tok", execs[0])

        rh, ah = [RefHolder(), RefHolder()], [Holder(), Holder()]
        for i, ki in enumerate(case["keys"]):
            k = KEYS[ki]
            c0, e0 = calls[0], execs[0]
            if insts:
                # decorated METHOD: the instance is part of the key, the cache is shared by all instances
                j = insts[i % len(insts)]
                rh[j].m(k)
                await ah[j].m(k)
                if (calls[0] - c0) != (execs[0] - e0):
                    out.bad("c20:seq-differential", "method:executed-vs-served",
                            f"{case}: call #{i} instance {j} key {k!r}: stdlib executed={calls[0] - c0} anyio "
                            f"executed={execs[0] - e0}")
                    return
                ri, ai = RefHolder.m.cache_info(), Holder.m.cache_info()
                if (ri.hits, ri.misses, ri.currsize) != (ai.hits, ai.misses, ai.currsize):
                    out.bad("c20:seq-differential", "method:cache_info", f"{case}: after call #{i}: stdlib {ri} anyio {ai}")
                    return
                continue
            if case.get("kw") and case["kw"][i % len(case["kw"])]:
                ref(k=k)
                await fn(k=k)
            else:
                ref(k)
                await fn(k)
            if (calls[0] - c0) != (execs[0] - e0):
                out.bad("c20:seq-differential", "executed-vs-served",
                        f"{case}: call #{i} key {k!r}: stdlib executed={calls[0] - c0} anyio executed={execs[0] - e0}")
                return
            ri, ai = ref.cache_info(), fn.cache_info()
            if (ri.hits, ri.misses, ri.currsize) != (ai.hits, ai.misses, ai.currsize):
                out.bad("c20:seq-differential", "cache_info", f"{case}: after call #{i}: stdlib {ri} anyio {ai}")
                return

    run_on("S", main)


# ------------------------------------------------------------------ concurrent histories


def run_conc(case, out, stats):
    maxsize, typed, ttl = case["maxsize"], case["typed"], case["ttl"]

    async def body(sim):
        sim.nest = case.get("nest", 0)
        sim.residue = bool(case.get("residue"))
        loop = sim.loop
        import os
        TR = os.environ.get("VF_TRACE")

        def tr(*a):
            if TR:
                print(f"[{sim.now():3} t={loop.time():.1f}]", *a)

        execs = []                 # {"key","n","gate","state","t_done"}
        running = {}               # canonical key -> executions in progress
        produced = {}              # token -> exec record
        raised = {}                # id(exc) -> exec record
        in_call = {}               # caller -> [canonical key, call cycle, call time]
        keys_used = set()
        f3 = [False]
        probing = [False]

        @lru_cache(maxsize=maxsize, typed=typed, ttl=ttl, always_checkpoint=case["ac"])
        async def fn(*a, **kwa):
            k = a[0] if a else kwa["k"]
            ck = canon(k, typed, not a)
            n = len(execs)
            rec = {"key": k, "ck": ck, "n": n, "gate": Event(), "state": "running", "t_done": None}
            execs.append(rec)
            tr("exec", n, "of", k, "starts")
            sim.progress += 1
            others = [c for c, v in running.items() if v > 0 and c != ck]
            keys_used.add(ck)
            if maxsize is not None and maxsize >= 1 and len(in_call) >= 2 and len(keys_used) > maxsize:
                f3[0] = True      # cache full and a computation starts while another call is in flight
            if others and maxsize is not None and len(keys_used) > maxsize:
                stats["full_with_inflight"] += 1
            if maxsize != 0 and ttl is None and not probing[0] and sig() == "" and (maxsize is None or len(keys_used) <= maxsize) \
                    and any(r["ck"] == ck and r["state"] == "done" for r in execs[:-1]):
                out.bad("c20:recomputed-although-cached", sig(),
                        f"key {k!r} executed again although its result was cached and nothing could have evicted it")
            running[ck] = running.get(ck, 0) + 1
            if running[ck] > 1 and maxsize != 0:
                out.bad("c20:single-flight", sig(), f"key {k!r}: {running[ck]} executions in progress")
            try:
                if probing[0]:
                    return_mode = "ok"
                else:
                    return_mode = case["outcomes"][n % len(case["outcomes"])]
                    await rec["gate"].wait()
                if return_mode == "boom":
                    exc = Boom(k, n)
                    raised[id(exc)] = rec
                    rec["state"] = "failed"
                    rec["exc"] = exc
                    waiters = [c for c, v in in_call.items() if v[0] == ck]
                    if len(waiters) >= 2:
                        stats["failure_with_waiter"] += 1
                    raise exc
                tok = (k, n)
                produced[tok] = rec
                rec["state"] = "done"
                rec["t_done"] = loop.time()
                return tok
            except asyncio.CancelledError:
                rec["state"] = "cancelled"
                raise
            finally:
                if rec["state"] != "done" and maxsize is not None and maxsize >= 1:
                    f3[0] = True      # a failed/cancelled computation leaves its placeholder and count behind (F3)
                running[ck] -= 1
                sim.progress += 1

        f9 = [False]

        def sig():
            if f3[0]:
                return "F3:eviction-while-in-flight"
            return "F9:ttl-expiry-while-callers-queued" if f9[0] else ""

        results = {}

        async def caller(cid):
            delay, ki = case["callers"][cid][:2]
            usekw = len(case["callers"][cid]) > 2 and case["callers"][cid][2]
            k = KEYS[ki]
            ck = canon(k, typed, usekw)
            await sim.delay(delay)
            if ttl is not None and running.get(ck, 0) == 0 and any(v[0] == ck for v in in_call.values()) and any(
                    r["ck"] == ck and r["state"] == "done" and loop.time() >= r["t_done"] + ttl for r in execs):
                # F9: this caller is the one that finds the entry expired (no computation of the key is running) while
                # earlier callers of the key are still queued on the old lock
                f9[0] = True
            if maxsize is not None and maxsize >= 1 and in_call and len(keys_used | {ck}) > maxsize:
                f3[0] = True      # a call begins while another is in flight and the cache is (about to be) full
            in_call[cid] = [ck, sim.now(), loop.time(), len(execs)]
            tr("caller", cid, "calls", k)
            try:
                with sim.op(cid) as sc:
                    try:
                        v = await (fn(k=k) if usekw else fn(k))
                    finally:
                        meta = in_call.pop(cid)
                        tr("caller", cid, "call ended")
            except Boom as e:
                rec = raised.get(id(e))
                if rec is None or rec["ck"] != ck:
                    out.bad("c20:provenance", "exception", f"caller {cid} key {k!r} got {e!r}")
                results[cid] = "boom"
                return
            except asyncio.CancelledError:
                asyncio.current_task().uncancel()
                return
            except Exception as e:  # noqa: BLE001
                out.bad("c20:internal-error", sig(), f"caller {cid} key {k!r} observed {type(e).__name__}: {e!r}")
                results[cid] = "internal"
                return
            if sc.cancelled_caught:
                results[cid] = "cancelled"
                return
            rec = produced.get(v) if isinstance(v, tuple) else None
            if rec is None or rec["ck"] != ck:
                out.bad("c20:provenance", "value", f"caller {cid} key {k!r} got {v!r}")
                return
            results[cid] = v
            if ttl is not None and rec["n"] < meta[3] and meta[2] >= rec["t_done"] + ttl:
                # the execution had finished before this call began, and had already expired at call time
                out.bad("c20:stale", "ttl", f"caller {cid} key {k!r} called at t={meta[2]} was served {v!r} "
                                            f"computed at t={rec['t_done']} (ttl {ttl})")

        ncall = len(case["callers"])

        async def actor(aid):
            if aid < ncall:
                await caller(aid)
            else:
                await controller()

        blocked = {}

        def monitor(lp):
            if maxsize == 0:
                return
            for cid, (ck, cyc, _t, _n) in in_call.items():
                if running.get(ck, 0) == 0 and lp.cycle - cyc >= 2:
                    blocked[cid] = blocked.get(cid, 0) + 1
                    if blocked[cid] == 5 + ncall:
                        gated = sorted(set(repr(r["key"]) for r in execs if r["state"] == "running"))
                        out.bad("c20:blocked-across-keys", sig(),
                                f"caller {cid} for key {ck!r} makes no progress although no execution of that key is "
                                f"in progress (executions in progress: {gated})")
                else:
                    blocked[cid] = 0

        sim.on_monitor = monitor

        def on_quiescent(rounds):
            opened = False
            for r in execs:
                if not r["gate"].is_set():
                    r["gate"].set()
                    opened = True
            return opened and rounds <= 4

        async def controller():
            for step in case["ctl"]:
                if sim.draining:
                    break
                if step[0] == "sleep":
                    if hasattr(loop, "advance"):
                        loop.advance(step[1])       # virtual time passes (ttl), no wall clock involved
                    await asyncio.sleep(0)
                    sim.progress += 1
                    continue
                await sim.delay(step[1])
                if step[0] == "open":
                    gated = [r for r in execs if r["state"] == "running" and not r["gate"].is_set()]
                    if gated:
                        gated[step[2] % len(gated)]["gate"].set()
                        sim.progress += 1
                else:
                    if sim.cancel(step[2]):
                        stats["caller_cancelled"] += 1

        res = await sim.run(ncall + 1, actor, on_quiescent=on_quiescent)
        sim.on_monitor = None
        for r in res:
            if isinstance(r, BaseException) and not isinstance(r, asyncio.CancelledError):
                raise r
        if sim.gave_up:
            out.bad("hang", "callers-stuck", "")
            return
        # retention probe at quiescence
        if maxsize is not None and maxsize >= 1:
            probing[0] = True
            served = 0
            for ck in sorted(keys_used, key=repr):
                pkw = isinstance(ck, tuple) and len(ck) == 2 and ck[0] == "kw"
                base = ck[1] if pkw else ck
                k = base[0] if typed else base
                n0 = len(execs)
                try:
                    v = await (fn(k=k) if pkw else fn(k))
                except Exception as e:  # noqa: BLE001
                    out.bad("c20:internal-error", sig(), f"probe of key {k!r} raised {type(e).__name__}: {e!r}")
                    continue
                if len(execs) == n0:
                    served += 1
                    rec = produced.get(v)
                    if rec is None or rec["ck"] != ck:
                        out.bad("c20:provenance", "probe", f"probe {k!r} got {v!r}")
                    elif ttl is not None and loop.time() >= rec["t_done"] + ttl:
                        out.bad("c20:stale", "ttl-probe", f"probe {k!r} served expired {v!r}")
            if served > maxsize:
                out.bad("c20:retention", sig(), f"{served} results served from the cache with maxsize={maxsize}")

    _res, err, _sim = run_sim(case["config"], body)
    if err is not None:
        out.bad("hang", err[0], err[1])


def run_seqfail(case, out):
    """One call at a time, some of them failing. Known finding F3 shows in such histories only as an extra execution
    (a failing call evicts before it computes), never as retained results, internal errors or foreign values - so
    those three are judged here with signatures of their own."""
    maxsize = case["maxsize"]

    async def main(loop):
        execs = []
        mode = {"fail": False}

        @lru_cache(maxsize=maxsize)
        async def fn(k):
            execs.append(k)
            if mode["fail"]:
                raise Boom(k, len(execs))
            return (k, len(execs))

        for k, fail in zip(case["keys"], case["fails"]):
            mode["fail"] = fail
            n0 = len(execs)
            try:
                v = await fn(k)
            except Boom as e:
                if not fail or e.args[0] != k or len(execs) == n0:
                    out.bad("c20:provenance", "seqfail-exception", f"{case}: call {k} got {e!r}")
                continue
            except Exception as e:  # noqa: BLE001
                out.bad("c20:internal-error", "sequential", f"{case}: call {k} observed {type(e).__name__}: {e!r}")
                continue
            if v[0] != k or (fail and len(execs) == n0 and False):
                out.bad("c20:provenance", "seqfail-value", f"{case}: call {k} got {v!r}")
            if fail and len(execs) > n0:
                out.bad("c20:provenance", "seqfail-value", f"{case}: failing execution of {k} returned {v!r}")
        mode["fail"] = False
        served = 0
        for k in sorted(set(case["keys"])):
            n0 = len(execs)
            try:
                await fn(k)
            except Exception as e:  # noqa: BLE001
                out.bad("c20:internal-error", "sequential-probe", f"{case}: probe {k}: {e!r}")
                continue
            if len(execs) == n0:
                served += 1
        if maxsize is not None and served > maxsize:
            out.bad("c20:retention", "sequential", f"{case}: {served} results served from the cache with maxsize={maxsize}")
        info = fn.cache_info()
        if maxsize is not None and info.currsize > maxsize:
            out.bad("c20:retention", "sequential-currsize", f"{case}: cache_info().currsize={info.currsize} > maxsize={maxsize}")

    run_on("S", main, budget=20000)


def run_case(case) -> Outcome:
    out = Outcome()
    if case["kind"] == "seqf":
        run_seqfail(case, out)
        out.nontrivial = any(case["fails"]) and len(set(case["keys"])) >= 2
        out.labels.append("seqfail")
        return out
    if case["kind"] == "seq":
        run_seq(case, out)
        out.nontrivial = len(set(case["keys"])) >= 2 and case["maxsize"] not in (None, 0)
        out.labels.append("seq")
        return out
    stats = {"full_with_inflight": 0, "failure_with_waiter": 0, "caller_cancelled": 0}
    run_conc(case, out, stats)
    out.nontrivial = stats["full_with_inflight"] > 0 or stats["failure_with_waiter"] > 0
    out.labels += [k for k, v in stats.items() if v] + ["conc", "maxsize-%s" % case["maxsize"], "config-" + case["config"]]
    if case["ttl"]:
        out.labels.append("ttl")
    return out
