"""C18 Socket streams deliver the byte stream intact, with back-pressure and EOF (real sockets, real-time loops).

Case = {"kind": "tcp"|"unix", "config": S|E|U, "scenario": "duplex"|"latereader"|"close"|"busy",
        "msgs": {"a": [sizes], "b": [sizes]}, "max": {"a": [max_bytes...], "b": [...]}, "bufs": None|int,
        "writer": "connector"|"acceptor", "eof": "send_eof"|"aclose", "local": {...}}
"""
from __future__ import annotations

import asyncio
import os
import socket
import tempfile

import anyio
from anyio import (BrokenResourceError, BusyResourceError, ClosedResourceError, EndOfStream,
                   create_task_group)
from anyio.abc import SocketAttribute

from ..gen import composite
from ..runner import Outcome

ID = "C18"
JOBS_PER_WORKER = 1
CASE_TIMEOUT_S = 200
RULE = ("Hypothesis-generated socket sessions on TCP loopback and UNIX sockets (stock, eager, uvloop): message-size "
        "sequences from 1 byte to several MiB, max_bytes 1..1 MiB, full duplex, late/stalled readers with small kernel "
        "buffers (optionally with the silent peer half-closing while the writer is parked; optionally after a history of several hundred KiB read in pieces of 64..1000 bytes), send_eof/aclose at generated positions, operations after local close (also with a receive() already parked on the closed stream), concurrent use of one direction; "
        "both ends in both roles; non-trivial = more bytes in one direction than the kernel accepts with an idle reader, "
        "or a chunk larger than max_bytes, or duplex traffic; distinct = distinct canonical JSON")
ASSUMPTIONS = [
    "back-pressure is judged differentially against the kernel: K = bytes two identically configured raw non-blocking "
    "sockets accept with an idle reader; sends completed before the peer's first receive must stay <= K + one message + 1 MiB "
    "(3 K + 4 MiB after a read history, which lets the kernel grow its windows)",
    "the only wall-clock element is the decision when a stalled writer is considered stuck (0.25 s without progress) and a "
    "30 s watchdog; a watchdog hit is re-run and only a hang on every run is a violation",
    "asyncio backend; IPv4 loopback only",
]
TECHNIQUE = "Hypothesis-generated sessions over real sockets; byte-stream equality, chunk-size and end-of-stream rules; back-pressure differential against raw kernel sockets"
LEVEL_TEXT = ("Per direction the concatenation of received chunks equals the bytes sent (position-dependent pattern), every "
              "chunk has 1..max_bytes bytes, remaining bytes then EndOfStream after send_eof/close, ClosedResourceError "
              "after local close without blocking, BusyResourceError for a second concurrent user with the first user's "
              "data intact, and the amount of data accepted from a writer whose peer does not read is bounded by the "
              "kernel's own capacity plus slack. Exploration over real I/O.")
LEVEL_NOTE = "Trusted: the kernel's socket buffers as back-pressure reference; loopback networking of the sandbox."
DESIGN_REF = "3/C18"

PAT = bytes((i * 7 + 3) % 251 for i in range(251)) * 9000     # position-dependent pattern, ~2.2 MiB


def pat(offset, n):
    o = offset % 251
    need = o + n
    src = PAT if need <= len(PAT) else PAT * (need // len(PAT) + 1)
    return src[o:o + n]


def budget(tier):
    return 640 if tier == "quick" else 8000


def _gen(g):
    scenario = g.weighted([(34, "duplex"), (22, "latereader"), (16, "close"), (12, "busy"), (16, "pingpong")])
    sizes_small = [1, 2, 100, 4096, 65536, 65537, 200000]

    def msgs(n, pool):
        return [g.choice(pool) for _ in range(g.int(1, n))]

    case = {"kind": g.choice(["tcp", "tcp", "unix"]), "config": g.choice(["S", "S", "E", "U"]), "scenario": scenario,
            "max": {"a": [g.choice([1, 7, 1000, 65536, 1 << 20]) for _ in range(g.int(1, 3))],
                    "b": [g.choice([1, 7, 1000, 65536, 1 << 20]) for _ in range(g.int(1, 3))]},
            "writer": g.choice(["connector", "acceptor"]), "eof": g.choice(["send_eof", "aclose"])}
    if scenario == "duplex":
        case["msgs"] = {"a": msgs(5, sizes_small + [1 << 20]), "b": msgs(5, sizes_small + [1 << 20])}
        case["bufs"] = g.choice([None, None, 16384])
        if any(m == 1 for m in case["max"]["a"] + case["max"]["b"]):
            case["msgs"] = {"a": msgs(3, [1, 2, 100, 4096]), "b": msgs(3, [1, 2, 100, 4096])}
    elif scenario == "latereader":
        # many medium-sized messages: progress of the writer is observable per completed send()
        size = g.choice([65536, 200000, 200000, 1 << 20])
        case["msgs"] = {"a": [size] * g.int(4, 40 if size < (1 << 20) else 12), "b": []}
        case["bufs"] = g.choice([16384, 65536, None])
        case["max"]["b"] = [g.choice([1000, 65536, 1 << 20])]
        case["first_read"] = g.bool()      # the reader receives one chunk, then stalls
        if g.chance(30):
            case["peer_eof"] = True
            case["msgs"]["a"] = [1 << 20] * g.int(30, 40)
        if g.chance(35):
            # the reader first consumes a few hundred KiB in small pieces (chunks split many times), then stalls
            case["history"] = {"bytes": g.choice([70000, 300000, 600000]), "max": g.choice([64, 100, 1000])}
            case["msgs"]["a"] = [1 << 20] * g.int(36, 44)
            case["max"]["b"] = [g.choice([65536, 1 << 20])]
    elif scenario == "pingpong":
        # request/response: the peer stays silent until the reader has consumed the whole message
        case["msgs"] = {"a": msgs(3, [5, 300, 1028, 5000, 70000]), "b": []}
        case["max"]["b"] = [g.choice([1, 4, 7, 100]), g.choice([3, 100, 1000])]
        case["bufs"] = None
        if g.chance(40):
            case["cancelled_first"] = g.chance(70)
            case["pieces"] = g.choice([2, 3, 3, 150])          # 150: far more separate arrivals than any queue bound
            case["max"]["b"] = [g.choice([1000, 65536, 1 << 20])]      # chunks are taken whole
            case["doomed_receive"] = g.chance(60)
    elif scenario == "close":
        case["msgs"] = {"a": msgs(3, [1, 100, 4096, 65536]), "b": []}
        case["bufs"] = None
        case["local"] = {"who": g.choice(["reader", "writer"]), "leftover": g.bool(), "first": g.choice([13, 15, 20, 1000]),
                         "parked": g.bool(), "big": g.choice([100, 1 << 20, 4 << 20, 4 << 20])}
    else:
        case["msgs"] = {"a": msgs(2, [100, 4096]), "b": []}
        case["bufs"] = 16384
        case["local"] = {"dir": g.choice(["receive", "send"]), "leftover": g.bool(), "first": g.choice([13, 15, 20, 1000])}
    return case


_strategy = composite(_gen)


def strategy(tier):
    return _strategy()


_K = {}


def kernel_capacity(kind, bufs):
    """Bytes the kernel accepts between two identically configured raw sockets with an idle reader."""
    key = (kind, bufs)
    if key in _K:
        return _K[key]
    if kind == "tcp":
        ls = socket.socket()
        ls.bind(("127.0.0.1", 0))
        ls.listen(1)
        c = socket.socket()
        c.connect(ls.getsockname())
        s, _ = ls.accept()
        ls.close()
    else:
        c, s = socket.socketpair(socket.AF_UNIX, socket.SOCK_STREAM)
    if bufs:
        for x in (c, s):
            x.setsockopt(socket.SOL_SOCKET, socket.SO_SNDBUF, bufs)
            x.setsockopt(socket.SOL_SOCKET, socket.SO_RCVBUF, bufs)
    c.setblocking(False)
    total = 0
    blob = b"x" * 65536
    idle = 0
    import time
    while idle < 3:
        try:
            total += c.send(blob)
            idle = 0
        except BlockingIOError:
            idle += 1
            time.sleep(0.02)
    c.close()
    s.close()
    _K[key] = total
    return total


def _factory(config):
    if config == "U":
        import uvloop
        return uvloop.new_event_loop
    if config == "E":
        def f():
            loop = asyncio.SelectorEventLoop()
            loop.set_task_factory(asyncio.eager_task_factory)
            return loop
        return f
    return asyncio.SelectorEventLoop


class Hang(Exception):
    pass


async def connect_pair(case, tg_stack):
    """Returns (connector_stream, acceptor_stream)."""
    accepted = []
    got = anyio.Event()
    if case["kind"] == "tcp":
        listener = await anyio.create_tcp_listener(local_host="127.0.0.1")
        port = listener.extra(SocketAttribute.local_port)
    else:
        d = tempfile.mkdtemp(prefix="vfsock-")
        path = os.path.join(d, "s")
        listener = await anyio.create_unix_listener(path)
    hold = anyio.Event()

    async def handler(stream):
        accepted.append(stream)
        got.set()
        await hold.wait()

    tg_stack["tg"].start_soon(listener.serve, handler)
    if case["kind"] == "tcp":
        conn = await anyio.connect_tcp("127.0.0.1", port)
    else:
        conn = await anyio.connect_unix(path)
    await got.wait()
    tg_stack["cleanup"].append((listener, hold, None if case["kind"] == "tcp" else d))
    acc = accepted[0]
    if case.get("bufs"):
        for st in (conn, acc):
            raw = st.extra(SocketAttribute.raw_socket)
            raw.setsockopt(socket.SOL_SOCKET, socket.SO_SNDBUF, case["bufs"])
            raw.setsockopt(socket.SOL_SOCKET, socket.SO_RCVBUF, case["bufs"])
    return conn, acc


async def send_all(stream, sizes, progress, out, tag):
    off = 0
    for n in sizes:
        await stream.send(pat(off, n))
        off += n
        progress[tag] = off
    return off


async def recv_all_from(stream, maxes, out, tag, stats, start):
    return await recv_all(stream, maxes, out, tag, stats, None, start) - start


async def recv_all(stream, maxes, out, tag, stats, limit=None, start=0):
    off = start
    i = 0
    while limit is None or off < limit:
        m = maxes[i % len(maxes)]
        i += 1
        try:
            chunk = await stream.receive(m)
        except EndOfStream:
            break
        if not (1 <= len(chunk) <= m):
            out.bad("chunk-size", tag, f"receive({m}) returned {len(chunk)} bytes")
            if not chunk:
                break
        if len(chunk) == m and m < 65536:
            stats["chunk_split_by_max_bytes"] += 1
        if chunk != pat(off, len(chunk)):
            out.bad("stream-corrupted", tag, f"bytes at offset {off} (chunk of {len(chunk)}) differ from what was sent")
            off += len(chunk)
            break
        off += len(chunk)
    return off


async def scenario_duplex(case, out, stats, a, b):
    prog = {}
    res = {}

    async def side(me, stream, my_sizes, my_max, peer_total):
        async with create_task_group() as tg:
            async def snd():
                await send_all(stream, my_sizes, prog, out, me)
                if case["eof"] == "send_eof":
                    await stream.send_eof()
                else:
                    # closing right after the last send: the peer must still get everything
                    if me == "a":
                        await done_recv[me].wait()
                        await stream.aclose()
                    else:
                        await stream.send_eof()
            tg.start_soon(snd)
            res[me] = await recv_all(stream, my_max, out, me, stats, None if case["eof"] == "send_eof" or me == "b" else peer_total)
            done_recv[me].set()

    done_recv = {"a": anyio.Event(), "b": anyio.Event()}
    ta, tb = sum(case["msgs"]["a"]), sum(case["msgs"]["b"])
    async with create_task_group() as tg:
        tg.start_soon(side, "a", a, case["msgs"]["a"], case["max"]["a"], tb)
        tg.start_soon(side, "b", b, case["msgs"]["b"], case["max"]["b"], ta)
    if res.get("a") != tb:
        out.bad("bytes-lost-or-extra", "b->a", f"{res.get('a')} of {tb} bytes arrived")
    if res.get("b") != ta:
        out.bad("bytes-lost-or-extra", "a->b", f"{res.get('b')} of {ta} bytes arrived")
    stats["duplex"] += 1


async def scenario_latereader(case, out, stats, w, r):
    """Writer w sends while reader r does not call receive() until the writer has stalled or finished."""
    prog = {"w": 0}
    total = sum(case["msgs"]["a"])
    K = kernel_capacity(case["kind"], case["bufs"])
    result = {}
    finished = anyio.Event()

    async def writer():
        await send_all(w, case["msgs"]["a"], prog, out, "w")
        finished.set()
        await w.send_eof()

    pre = 0
    async with create_task_group() as tg:
        tg.start_soon(writer)
        if case.get("first_read"):
            chunk = await r.receive(case["max"]["b"][0])
            if chunk != pat(0, len(chunk)) or not chunk:
                out.bad("stream-corrupted", "r", "first chunk")
            pre = len(chunk)
            stats["stall_after_first_receive"] += 1
        hist = case.get("history")
        if hist:
            while pre < min(hist["bytes"], total // 4):
                chunk = await r.receive(hist["max"])
                if not chunk or len(chunk) > hist["max"] or chunk != pat(pre, len(chunk)):
                    out.bad("stream-corrupted", "r", f"history read at offset {pre}")
                    break
                pre += len(chunk)
            stats["stall_after_small_reads"] += 1
        last, still = -1, 0
        while not finished.is_set() and still < 8:
            await anyio.sleep(0.05)
            if prog["w"] == last:
                still += 1
            else:
                last, still = prog["w"], 0
        accepted_before_read = prog["w"] - pre
        result["before"] = accepted_before_read
        bound = K + max(case["msgs"]["a"]) + (1 << 20)
        if hist:
            # a reader that has been reading lets the kernel grow its windows beyond what the never-read reference
            # measurement K saw (observed: up to 2.2 K under load): generous bound, far larger total
            bound = 3 * K + (4 << 20)
        if total > bound:
            stats["more_than_kernel_capacity"] += 1
        if accepted_before_read > bound:
            out.bad("no-back-pressure", case["kind"] + ":" + case["writer"],
                    f"{accepted_before_read} bytes of send() completed although the peer never called receive(); "
                    f"the kernel alone accepts {K} (bound {bound})")
        if case.get("peer_eof") and not finished.is_set():
            # the silent peer half-closes (it keeps its receiving side open) while the writer is parked and the
            # writer's side also has a task waiting in receive(): the writer must stay parked
            async def w_receiver():
                try:
                    while True:
                        await w.receive(100)
                except EndOfStream:
                    result["w_saw_eof"] = True

            tg.start_soon(w_receiver)
            await anyio.sleep(0.02)
            await r.send_eof()
            last, still = -1, 0
            while not finished.is_set() and still < 8:
                await anyio.sleep(0.05)
                if prog["w"] == last:
                    still += 1
                else:
                    last, still = prog["w"], 0
            after = prog["w"] - pre
            stats["peer_half_closed_while_writer_parked"] += 1
            if after > bound + max(case["msgs"]["a"]):
                out.bad("no-back-pressure", "after-peer-eof:" + case["kind"],
                        f"{after} bytes of send() completed after the peer's send_eof() although it never read "
                        f"(before: {accepted_before_read}, bound {bound})")
        got = pre + await recv_all_from(r, case["max"]["b"], out, "r", stats, pre)
        if got != total:
            out.bad("bytes-lost-or-extra", "latereader", f"{got} of {total} bytes arrived")
    stats["latereader"] += 1


async def scenario_pingpong(case, out, stats, w, r):
    """Each message is acknowledged by the reader only after it has been read completely; the writer is silent meanwhile."""
    off = 0
    if case.get("cancelled_first"):
        # an earlier receive() was cancelled while it waited (nothing had been sent yet)
        with anyio.move_on_after(0.02):
            await r.receive(100)
            out.bad("stream-corrupted", "pingpong", "data arrived before anything was sent")
        stats["receive_cancelled_while_waiting"] += 1
    for n in case["msgs"]["a"]:
        pieces = case.get("pieces", 1)
        if pieces > 1 and n >= pieces:
            # the message leaves in several separate sends while nobody is receiving
            step = n // pieces
            sent = 0
            for j in range(pieces):
                k = step if j < pieces - 1 else n - sent
                await w.send(pat(off + sent, k))
                sent += k
                await anyio.sleep(0.01 if pieces <= 3 else 0.001)
        else:
            await w.send(pat(off, n))
        if case.get("doomed_receive"):
            # a receive() made inside an already cancelled scope: it raises (or returns the next bytes); either way
            # the stream must go on in order
            with anyio.CancelScope() as dsc:
                dsc.cancel()
                chunk = await r.receive(case["max"]["b"][0])
                if chunk != pat(off, len(chunk)):
                    out.bad("stream-corrupted", "pingpong", f"doomed receive at offset {off}")
                    return
                off_extra = len(chunk)
                n -= off_extra
                off += off_extra
            stats["receive_in_cancelled_scope"] += 1
        got = 0
        i = 0
        try:
            with anyio.fail_after(8):
                while got < n:
                    m = case["max"]["b"][i % len(case["max"]["b"])]
                    i += 1
                    chunk = await r.receive(min(m, n - got))
                    if not (1 <= len(chunk) <= m):
                        out.bad("chunk-size", "pingpong", f"receive({m}) returned {len(chunk)} bytes")
                    if chunk != pat(off + got, len(chunk)):
                        out.bad("stream-corrupted", "pingpong", f"offset {off + got}")
                        return
                    got += len(chunk)
                    if len(chunk) == m:
                        stats["chunk_split_by_max_bytes"] += 1
        except TimeoutError:
            raise Hang() from None
        await r.send(b"ACK")
        ack = b""
        with anyio.fail_after(8):
            while len(ack) < 3:
                ack += await w.receive(3 - len(ack))
        if ack != b"ACK":
            out.bad("stream-corrupted", "ack", repr(ack))
        off += n
    stats["pingpong"] += 1


async def scenario_close(case, out, stats, w, r):
    total = sum(case["msgs"]["a"])
    prog = {}
    if case["local"].get("parked"):
        # a receive() is already parked on the stream that is about to be closed locally; meanwhile the same stream
        # sends more than the kernel buffers hold (its writer has to wait for the peer to drain); then it is closed:
        # the parked receive() must come back (ClosedResourceError), not block on a closed stream
        res = {}
        big = case["local"].get("big", 4 << 20)

        async def parked():
            try:
                with anyio.fail_after(8):
                    res["r"] = ("data", await w.receive(10))
            except ClosedResourceError:
                res["r"] = ("closed",)
            except TimeoutError:
                res["r"] = ("blocked",)
            except (EndOfStream, BrokenResourceError) as e:
                res["r"] = ("other", type(e).__name__)

        async with create_task_group() as tg:
            tg.start_soon(parked)
            await anyio.sleep(0.02)

            async def drain():
                got = await recv_all(r, [1 << 20], out, "r", stats, limit=big)
                if got != big:
                    out.bad("bytes-lost-or-extra", "close-parked", f"{got} of {big}")

            async with create_task_group() as tg2:
                tg2.start_soon(w.send, pat(0, big))
                await anyio.sleep(0.05)          # the writer is now waiting for the socket to become writable
                tg2.start_soon(drain)
            await anyio.sleep(0.02)
            await w.aclose()
        if res.get("r", ("none",))[0] == "blocked":
            out.bad("receive-after-local-close-blocked", "parked-receiver", f"{res}")
        elif res.get("r", ("none",))[0] not in ("closed",):
            out.bad("wrong-error-after-local-close", "parked-receive:" + str(res.get("r")), "")
        stats["close_with_parked_receive"] += 1
        stats["close"] += 1
        return
    await send_all(w, case["msgs"]["a"], prog, out, "w")
    local = case["local"]
    if local["who"] == "writer":
        await w.aclose()
        try:
            await w.send(b"x")
            out.bad("send-after-close-accepted", "", "")
        except ClosedResourceError:
            pass
        except BrokenResourceError:
            out.bad("wrong-error-after-local-close", "send:BrokenResourceError", "")
        try:
            with anyio.fail_after(5):
                await w.receive(10)
            out.bad("receive-after-close-returned-data", "", "")
        except ClosedResourceError:
            pass
        except TimeoutError:
            out.bad("receive-after-local-close-blocked", "writer", "")
        except (EndOfStream, BrokenResourceError) as e:
            out.bad("wrong-error-after-local-close", "receive:" + type(e).__name__, "")
        got = await recv_all(r, case["max"]["b"], out, "r", stats)
        if got != total:
            out.bad("bytes-lost-or-extra", "after-writer-close", f"{got} of {total} bytes arrived")
    else:
        if local["leftover"]:
            # make sure data has arrived at the reader's side before it closes locally
            first = await r.receive(1)
            if first != pat(0, 1):
                out.bad("stream-corrupted", "r", "first byte")
        await r.aclose()
        leftover = 0
        try:
            with anyio.fail_after(5):
                while True:
                    chunk = await r.receive(65536)
                    leftover += len(chunk)
                    if leftover > total:
                        out.bad("bytes-lost-or-extra", "after-reader-close", "more than sent")
                        break
        except ClosedResourceError:
            pass
        except TimeoutError:
            out.bad("receive-after-local-close-blocked", "reader", "")
        except (EndOfStream, BrokenResourceError) as e:
            out.bad("wrong-error-after-local-close", "receive:" + type(e).__name__, "")
        try:
            await r.send(b"x")
            out.bad("send-after-close-accepted", "", "")
        except ClosedResourceError:
            pass
        except BrokenResourceError:
            out.bad("wrong-error-after-local-close", "send:BrokenResourceError", "")
    stats["close"] += 1


async def scenario_busy(case, out, stats, w, r):
    total = sum(case["msgs"]["a"])
    if case["local"]["dir"] == "receive" and case["local"].get("leftover"):
        # data is already buffered in the stream (a small receive left the rest of the chunk behind) when two
        # tasks call receive() in the same loop cycle: one of them must be rejected, the other gets the next bytes
        L1 = case["local"].get("first", 1000)
        await w.send(pat(0, L1))
        with anyio.fail_after(8):
            first = await r.receive(10)
        if first != pat(0, len(first)) or not first:
            out.bad("stream-corrupted", "busy-leftover", "first chunk")
        res = {}
        order = []

        async def rx(tag):
            try:
                with anyio.fail_after(5):
                    res[tag] = ("data", await r.receive(10))
            except BusyResourceError:
                res[tag] = ("busy",)
            except TimeoutError:
                res[tag] = ("timeout",)
            except EndOfStream:
                res[tag] = ("eos",)
            order.append(tag)

        async with create_task_group() as tg:
            tg.start_soon(rx, "a")
            tg.start_soon(rx, "b")
            await anyio.sleep(0.05)
            await w.send(pat(L1, 7))          # the connection is alive: more data follows
        kinds = sorted(v[0] for v in res.values())
        if "eos" in kinds:
            out.bad("end-of-stream-on-live-connection", "concurrent-receive", f"{res}")
        elif kinds not in (["busy", "data"], ["data", "data"]):
            # (whether the second caller is rejected or simply served next depends on whether the first one is
            # still inside receive(); what must not happen is a bogus end of stream, a hang, or mixed-up bytes)
            out.bad("concurrent-receive-blocked", "buffered-data", f"{res}")
        else:
            pos = len(first)
            for tag in order:
                if res[tag][0] == "data":
                    d = res[tag][1]
                    if not d or d != pat(pos, len(d)):
                        out.bad("stream-corrupted", "busy-leftover", f"offset {pos}: {res}")
                        break
                    pos += len(d)
        stats["busy_with_buffered_data"] += 1
        stats["busy"] += 1
        return
    if case["local"]["dir"] == "receive":
        got = {}
        started = anyio.Event()

        async def first():
            started.set()
            got["n"] = await recv_all(r, [65536], out, "r", stats)

        async with create_task_group() as tg:
            tg.start_soon(first)
            await started.wait()
            await anyio.sleep(0.02)           # the first receiver is parked inside receive()
            try:
                with anyio.fail_after(5):
                    await r.receive(10)
                out.bad("concurrent-receive-accepted", "", "")
            except BusyResourceError:
                pass
            except TimeoutError:
                out.bad("concurrent-receive-blocked", "", "")
            await send_all(w, case["msgs"]["a"], {}, out, "w")
            await w.send_eof()
        if got.get("n") != total:
            out.bad("bytes-lost-or-extra", "busy-receive", f"{got.get('n')} of {total}")
    else:
        # the first sender must be blocked: send much more than the buffers hold while nobody reads
        big = 8 << 20
        done = {}

        async def first():
            await w.send(pat(0, big))
            done["first"] = True

        async with create_task_group() as tg:
            tg.start_soon(first)
            await anyio.sleep(0.1)
            if not done.get("first"):
                try:
                    with anyio.fail_after(5):
                        await w.send(b"zz")
                    out.bad("concurrent-send-accepted", "", "")
                except BusyResourceError:
                    pass
                except TimeoutError:
                    out.bad("concurrent-send-blocked", "", "")
            got = await recv_all(r, [1 << 20], out, "r", stats, limit=big)
            if got != big:
                out.bad("bytes-lost-or-extra", "busy-send", f"{got} of {big}: the first sender's data is not intact")
    stats["busy"] += 1


def run_once(case, out, stats):
    async def main():
        stack = {"cleanup": []}
        try:
            with anyio.fail_after(30):
                async with create_task_group() as tg:
                    stack["tg"] = tg
                    conn, acc = await connect_pair(case, stack)
                    w, r = (conn, acc) if case["writer"] == "connector" else (acc, conn)
                    try:
                        sc = case["scenario"]
                        if sc == "duplex":
                            await scenario_duplex(case, out, stats, w, r)
                        elif sc == "latereader":
                            await scenario_latereader(case, out, stats, w, r)
                        elif sc == "close":
                            await scenario_close(case, out, stats, w, r)
                        elif sc == "pingpong":
                            await scenario_pingpong(case, out, stats, w, r)
                        else:
                            await scenario_busy(case, out, stats, w, r)
                    finally:
                        with anyio.CancelScope(shield=True):
                            for s in (conn, acc):
                                try:
                                    await s.aclose()
                                except Exception:  # noqa: BLE001
                                    pass
                            for listener, hold, d in stack["cleanup"]:
                                hold.set()
                        tg.cancel_scope.cancel()
                with anyio.CancelScope(shield=True):
                    for listener, hold, d in stack["cleanup"]:
                        await listener.aclose()
                        if d:
                            import shutil
                            shutil.rmtree(d, ignore_errors=True)
        except TimeoutError:
            raise Hang() from None

    try:
        anyio.run(main, backend_options={"loop_factory": _factory(case["config"])})
    except BaseExceptionGroup as eg:
        def has_hang(e):
            return isinstance(e, Hang) or (isinstance(e, BaseExceptionGroup) and any(has_hang(x) for x in e.exceptions))
        if has_hang(eg):
            raise Hang() from None
        raise


def run_case(case) -> Outcome:
    out = Outcome()
    stats = dict.fromkeys(["duplex", "latereader", "close", "busy", "pingpong", "more_than_kernel_capacity",
                           "chunk_split_by_max_bytes", "watchdog_rerun", "stall_after_first_receive",
                           "stall_after_small_reads", "busy_with_buffered_data",
                           "receive_cancelled_while_waiting", "peer_half_closed_while_writer_parked",
                           "receive_in_cancelled_scope", "close_with_parked_receive"], 0)
    hangs = 0
    for attempt in range(3):
        trial = Outcome()
        try:
            run_once(case, trial, stats)
        except Hang:
            hangs += 1
            stats["watchdog_rerun"] += 1
            continue
        out.viols = trial.viols
        break
    else:
        out.bad("hang", case["scenario"], f"{case}: no completion within the watchdog (8 s per message / 30 s per case) on 3 runs")
    out.nontrivial = bool(stats["more_than_kernel_capacity"] or stats["chunk_split_by_max_bytes"] or stats["duplex"])
    out.labels = [k for k, v in stats.items() if v] + [case["kind"], "config-" + case["config"], "writer-" + case["writer"]]
    return out
