"""C11 Event and Condition: no early, spurious or lost wake-ups.

Case = {"kind": "event"|"cond", "config": S|E|U, "actors": [[step...]]}
 event steps: ["wait", d] | ["set", d] | ["cancel", d, target, native] | ["probe", d]
 cond steps:  ["acq", d] | ["rel", d] | ["wait", d] | ["notify", d, n] | ["notify_all", d]
              | ["cancel", d, target, native] | ["notc", d, n, off, which, native]  (notify with a cancel around it)
"""
from __future__ import annotations

import asyncio

import anyio
from anyio import Condition, Event

from ..actors import run_sim
from ..gen import composite
from ..runner import Outcome

ID = "C11"
RULE = ("Hypothesis-generated actor scripts over one Event or one Condition (acquire/release/wait/notify(n)/notify_all, "
        "also without holding the lock; cancels by scope or natively placed at offsets -1/0/+1 around notifications); "
        "non-trivial = a notified waiter cancelled within one cycle of its notification with another waiter queued "
        "behind it, or notify(n) with more than n waiters, or (event) a waiter cancelled before set(); distinct = "
        "distinct canonical JSON")
ASSUMPTIONS = [
    "queue automaton driven by the observed history; where a cancellation overlaps a notification by <= 2 cycles the "
    "recipient of the passed-on notification may be any waiter queued in that window (tolerance credits), elsewhere exact",
    "credits are created only for as many cancelled waiters as statistics().tasks_waiting shows can still be queued; "
    "when a floating and a direct notification are both outstanding either attribution to the eligible waiters is accepted",
    "an unmarked waiter leaves the model queue when its cancellation is requested",
    "at most one native cancel per operation",
]
TECHNIQUE = "Hypothesis-generated actor programs; queue automaton (FIFO of waiters, marks, pass-on) over the observed history"
LEVEL_TEXT = ("Event: no return before set(), every live waiter released within 3 cycles of set(), stays set. Condition: "
              "wait returns only to a marked task that owns the lock; notify(n) marks the first n in FIFO order; marks "
              "of cancelled waiters are passed on, none lost (a marked or eligible waiter that never returns is a lost "
              "wake-up); wait/notify/notify_all refused without the lock and without side effect. Exploration.")
LEVEL_NOTE = "Trusted: harness ownership counter and queue automaton; tolerance window for cancel/notify overlap."
DESIGN_REF = "3/C11"


def budget(tier):
    return 24000 if tier == "quick" else 400000


def _gen(g):
    kind = g.weighted([(25, "event"), (75, "cond")])
    n = g.int(2, 5)
    actors = []
    roles = [g.choice(["waiter", "waiter", "notifier"]) for _ in range(n)]
    for _a in range(n):
        script = []
        for _ in range(g.int(2, 6)):
            d = g.int(0, 3)
            if kind == "event":
                k = g.weighted([(45, "wait"), (15, "set"), (30, "cancel"), (10, "probe")])
                if k == "cancel":
                    script.append([k, d, g.int(0, n - 1), g.chance(20)])
                else:
                    script.append([k, d])
            else:
                role = roles[_a]
                if role == "waiter":
                    k = g.weighted([(50, "wait"), (10, "acq"), (12, "rel"), (8, "notify"), (8, "cancel"), (12, "notc")])
                else:
                    k = g.weighted([(28, "notc"), (22, "notify"), (6, "notify_all"), (10, "wait"), (10, "rel"),
                                    (6, "acq"), (18, "cancel")])
                if k in ("wait", "notify", "notify_all", "notc") and g.chance(85):
                    script.append(["acq", g.int(0, 2)])
                    d = g.int(0, 1)
                if k in ("acq", "rel", "wait", "notify_all"):
                    script.append([k, d])
                elif k == "notify":
                    script.append([k, d, g.int(0, 3)])
                elif k == "cancel":
                    script.append([k, d, g.int(0, n - 1), g.chance(20)])
                else:
                    script.append([k, d, g.int(1, 2), g.choice([-1, 0, 0, 1]), g.choice([0, 0, 1]), g.chance(25)])
                if k in ("notify", "notify_all", "notc") and g.chance(70):
                    script.append(["rel", g.int(0, 1)])
        actors.append(script)
    if kind == "cond" and g.chance(20):
        # three waiters queued in order; the middle one is abandoned (cancelled unnotified), then the first is
        # notified and cancelled natively in the same cycle so that it has to pass the notification on
        n = 4
        d = g.int(0, 2)
        actors = [[["acq", 0], ["wait", 0], ["rel", 0]], [["acq", 1], ["wait", 0], ["rel", 0]],
                  [["acq", 2], ["wait", 0], ["rel", 0]],
                  [["yield_", 8], ["cancel", d, 1, g.chance(30)], ["acq", g.int(0, 1)],
                   ["notc", 0, 1, 0, 0, True], ["rel", 0]] + ([["acq", 3], ["notify", 0, 2], ["rel", 0]] if g.bool() else [])]
        actors[3][0] = ["cancel", 8, 3, False]      # harmless first step that just takes 8 cycles
    return {"kind": kind, "config": g.choice(["S", "S", "E", "U"]), "actors": actors,
            "nest": g.choice([0, 0, 1, 2]), "adapter": g.chance(20), "residue": g.chance(12)}


_strategy = composite(_gen)


def strategy(tier):
    return _strategy()


def run_event(case, out, stats):
    prebuilt = Event() if case.get("adapter") else None     # adapter created outside the event loop

    async def body(sim):
        sim.nest = case.get("nest", 0)
        sim.residue = bool(case.get("residue"))
        ev = prebuilt if prebuilt is not None else Event()
        set_cycle = [None]
        waiting = {}     # aid -> call cycle

        async def do_step(aid, step):
            await sim.delay(step[1])
            sim.progress += 1
            k = step[0]
            if k == "wait":
                waiting[aid] = sim.now()
                ok = False
                try:
                    with sim.op(aid) as sc:
                        try:
                            await ev.wait()
                            ok = True
                        finally:
                            waiting.pop(aid, None)
                except asyncio.CancelledError:
                    asyncio.current_task().uncancel()
                    sim.native_req.discard(aid)
                if ok and set_cycle[0] is None:
                    out.bad("event-early-wakeup", "", f"actor {aid} returned from wait() at cycle {sim.now()} before set()")
            elif k == "set":
                ev.set()
                if set_cycle[0] is None:
                    set_cycle[0] = sim.now()
                    if waiting:
                        stats["set_with_waiters"] += 1
            elif k == "cancel":
                t = step[2]
                if t in waiting and set_cycle[0] is None:
                    stats["cancel_before_set"] += 1
                if step[3]:
                    sim.native_cancel(t)
                else:
                    sim.cancel(t)
            elif k == "probe":
                if set_cycle[0] is not None and not ev.is_set():
                    out.bad("event-unset", "", "is_set() false after set()")
                if set_cycle[0] is None and ev.is_set():
                    out.bad("event-set-spontaneously", "", "")

        async def actor(aid):
            for step in case["actors"][aid]:
                if sim.draining:
                    break
                try:
                    await do_step(aid, step)
                except asyncio.CancelledError:
                    asyncio.current_task().uncancel()
                    sim.native_req.discard(aid)

        def monitor(lp):
            if set_cycle[0] is not None and lp.cycle >= set_cycle[0] + 4:
                late = [a for a, c in waiting.items() if c <= lp.cycle - 4]
                if late:
                    out.bad("event-lost-wakeup", "", f"actors {late} still in wait() {lp.cycle - set_cycle[0]} cycles after set()")

        sim.on_monitor = monitor
        res = await sim.run(len(case["actors"]), actor)
        sim.on_monitor = None
        for r in res:
            if isinstance(r, BaseException) and not isinstance(r, asyncio.CancelledError):
                raise r
        if ev.statistics().tasks_waiting:
            out.bad("event-end-state", "", f"{ev.statistics()}")

    return body


def run_cond(case, out, stats):
    prebuilt = Condition() if case.get("adapter") else None

    async def body(sim):
        sim.nest = case.get("nest", 0)
        sim.residue = bool(case.get("residue"))
        cond = prebuilt if prebuilt is not None else Condition()
        holder = [None]
        queue = []           # FIFO of aids in wait(), unmarked, cancellation not requested
        joined = {}          # aid -> cycle at which it joined the queue
        marked = {}          # aid -> cycle at which it was marked
        credits = []         # creation cycles of floating notifications whose recipient the model cannot name
        pending_pass = []    # (due cycle, aid): marked waiters cancelled natively pass their mark on at their next step
        passed = set()
        zombies = {}         # aid -> cycle of cancel request for unmarked waiters still inside wait()
        inwait = {}          # aid -> call cycle (every actor currently inside wait())

        def own(aid):
            return holder[0] == aid

        def note_cancel(target):
            """Bookkeeping at the moment a cancel of ``target``'s wait() is requested."""
            if target in inwait and target in queue:
                queue.remove(target)
                zombies[target] = sim.now()

        def do_cancel(target, native):
            if target not in sim.scopes:
                return
            if native:
                if target in sim.native_req:
                    return
                if target in marked and marked[target] != sim.now():
                    return      # already resumed into the (shield-protected) re-acquire: native cancel out of domain
                if target in inwait and target not in queue and target not in marked:
                    return      # a zombie: one cancellation is already on its way
                if any(joined.get(target, -99) <= c + 2 and c < sim.now() for c in credits):
                    # may secretly hold a passed-on notification and sit in the shielded re-acquire, which a native
                    # cancel would cut through: out of domain. (A credit created in this very cycle cannot have been
                    # passed on yet: its cancelled waiter has not run since.)
                    return
                if sim.native_cancel(target):
                    note_cancel(target)
                    if target in marked:
                        # the CancelledError is thrown into wait() at the target's next step: that is when
                        # the real code hands the notification to the then-first waiter
                        pending_pass.append((sim.now() + 1, target))
            else:
                if sim.cancel(target):
                    note_cancel(target)

        def do_notify(aid, n, all_=False):
            before = cond.statistics().tasks_waiting
            if not own(aid):
                try:
                    cond.notify_all() if all_ else cond.notify(n)
                except RuntimeError:
                    if cond.statistics().tasks_waiting != before:
                        out.bad("refused-call-had-effect", "notify", "")
                else:
                    out.bad("notify-without-lock-accepted", "notify_all" if all_ else "notify",
                            f"actor {aid} does not hold the lock (holder {holder[0]})")
                return
            try:
                cond.notify_all() if all_ else cond.notify(n)
            except RuntimeError as e:
                out.bad("owner-notify-refused", "", repr(e))
                return
            k = len(queue) if all_ else min(n, len(queue))
            if not all_ and len(queue) > n >= 1:
                stats["notify_n_lt_waiters"] += 1
            # a fresh zombie may still sit in the real queue and absorb a notification that it passes on later
            fresh = [z for z, c in zombies.items() if sim.now() - c <= 2]
            # (tasks_waiting is public: it bounds how many cancelled waiters can still have been queued)
            present = max(0, before - len(queue))
            ncred = min(len(fresh), present) if all_ else min(n, len(fresh), present)
            if ncred > 0:
                stats["credit_created"] += 1
                credits.extend([sim.now()] * ncred)
            for _ in range(k):
                a = queue.pop(0)
                marked[a] = sim.now()

        async def do_wait(aid):
            if not own(aid):
                before = cond.statistics().tasks_waiting
                try:
                    with sim.op(aid):
                        await cond.wait()
                except RuntimeError:
                    if cond.statistics().tasks_waiting != before:
                        out.bad("refused-call-had-effect", "wait", "wait() without the lock left a waiter queued")
                except asyncio.CancelledError:
                    asyncio.current_task().uncancel()
                    sim.native_req.discard(aid)
                else:
                    out.bad("wait-without-lock-accepted", "", f"actor {aid}")
                return
            queue.append(aid)
            joined[aid] = sim.now()
            inwait[aid] = sim.now()
            holder[0] = None
            ok = False
            try:
                with sim.op(aid):
                    try:
                        await cond.wait()
                        ok = True
                    finally:
                        inwait.pop(aid, None)
                        # wait() always re-acquires the lock, however it ends
                        owner = cond.statistics().lock_statistics.owner
                        if owner is None or owner.id != id(sim.tasks[aid]):
                            out.bad("wait-ended-without-lock", "", f"actor {aid}: lock owner {owner}")
                        else:
                            if holder[0] is not None:
                                out.bad("mutual-exclusion", "after-wait",
                                        f"{aid} resumed while {holder[0]} holds the lock")
                            holder[0] = aid
            except asyncio.CancelledError:
                asyncio.current_task().uncancel()
                sim.native_req.discard(aid)
            t0 = zombies.pop(aid, None)
            tr("actor", aid, "wait ended ok=%s" % ok)
            if ok:
                if aid in marked:
                    mc = marked.pop(aid)
                    # the waiter may have been woken by a floating (passed-on) notification instead, in which case
                    # the notify() that marked it reached the next waiter of that moment: re-date the credit
                    c0 = next((c for c in credits if joined[aid] <= c + 2 and c < mc), None)
                    if c0 is not None:
                        credits.remove(c0)
                        credits.append(mc)
                        stats["credit_redated"] += 1
                elif any(joined[aid] <= c + 2 for c in credits):
                    credits.remove(next(c for c in credits if joined[aid] <= c + 2))
                    stats["credit_used"] += 1
                elif any(joined[aid] <= mc + 2 and any(joined[m] <= c + 2 and c < mc for c in credits)
                         for m, mc in marked.items()):
                    # same ambiguity, seen from the other side: a still-marked waiter may hold the floating
                    # notification, and this one received the notify() the model attributed to it
                    m, mc = next((m, mc) for m, mc in marked.items() if joined[aid] <= mc + 2
                                 and any(joined[m] <= c + 2 and c < mc for c in credits))
                    credits.remove(next(c for c in credits if joined[m] <= c + 2 and c < mc))
                    stats["credit_redated"] += 1
                else:
                    out.bad("spurious-wakeup", "", f"actor {aid} returned from wait() at cycle {sim.now()} unnotified")
                if aid in queue:
                    queue.remove(aid)
            else:
                if aid in queue:
                    queue.remove(aid)
                if aid in passed:
                    passed.discard(aid)
                    marked.pop(aid, None)
                elif aid in marked:
                    # notified but could not act on it: the notification must be passed on
                    mc = marked.pop(aid)
                    req = sim_cancel_cycle.get(aid, mc)
                    stats["marked_waiter_cancelled"] += 1
                    elig = [a for a in queue if joined[a] <= min(req, mc)]
                    if elig:
                        if len(queue) >= 1:
                            stats["pass_on"] += 1
                        queue.remove(elig[0])
                        marked[elig[0]] = sim.now()
                    elif queue:
                        credits.append(sim.now())

        sim_cancel_cycle = {}
        orig_cancel, orig_native = sim.cancel, sim.native_cancel

        def rec_cancel(t):
            r = orig_cancel(t)
            if r:
                sim_cancel_cycle[t] = sim.now()
            return r

        def rec_native(t):
            r = orig_native(t)
            if r:
                sim_cancel_cycle[t] = sim.now()
            return r

        sim.cancel, sim.native_cancel = rec_cancel, rec_native

        import os
        TR = os.environ.get("VF_TRACE")

        def tr(*a):
            if TR:
                print(f"[{sim.now():3}]", *a, "| holder", holder[0], "queue", queue, "marked", dict(marked),
                      "zomb", dict(zombies), "cred", credits)

        async def do_step(aid, step):
            await sim.delay(step[1])
            sim.progress += 1
            k = step[0]
            tr("actor", aid, "step", step)
            if k == "acq":
                if own(aid):
                    return
                with sim.op(aid) as sc:
                    await cond.acquire()
                if sc.cancelled_caught:
                    return
                if holder[0] is not None:
                    out.bad("mutual-exclusion", "acquire", f"{aid} acquired while {holder[0]} holds")
                holder[0] = aid
            elif k == "rel":
                if own(aid):
                    holder[0] = None
                    cond.release()
                else:
                    try:
                        cond.release()
                    except RuntimeError:
                        pass
                    else:
                        out.bad("release-by-non-owner-accepted", "", f"actor {aid}")
            elif k == "wait":
                await do_wait(aid)
            elif k == "notify":
                do_notify(aid, step[2])
            elif k == "notify_all":
                do_notify(aid, 0, all_=True)
            elif k == "cancel":
                if step[2] in inwait:
                    do_cancel(step[2], step[3])
            elif k == "notc":
                if not own(aid):
                    return
                n, off, which, native = step[2], step[3], step[4], step[5]
                target = queue[min(which, len(queue) - 1)] if queue else None
                if target is not None and len(queue) >= 2:
                    stats["cancel_around_notify"] += 1
                if off == -1:
                    if target is not None:
                        do_cancel(target, native)
                    await asyncio.sleep(0)
                    if own(aid):
                        do_notify(aid, n)
                elif off == 0:
                    do_notify(aid, n)
                    if target is not None:
                        do_cancel(target, native)
                else:
                    do_notify(aid, n)
                    await asyncio.sleep(0)
                    if target is not None:
                        do_cancel(target, native)

        async def actor(aid):
            try:
                for step in case["actors"][aid]:
                    if sim.draining:
                        break
                    try:
                        await do_step(aid, step)
                    except asyncio.CancelledError:
                        asyncio.current_task().uncancel()
                        sim.native_req.discard(aid)
            finally:
                if own(aid):
                    holder[0] = None
                    cond.release()

        def monitor(lp):
            for item in list(pending_pass):
                due, a = item
                if lp.cycle >= due:
                    pending_pass.remove(item)
                    if a in marked and a in inwait:
                        passed.add(a)
                        stats["marked_waiter_cancelled"] += 1
                        if queue:
                            x = queue.pop(0)
                            marked[x] = lp.cycle
                            stats["pass_on"] += 1
                        else:
                            credits.append(lp.cycle)

        sim.on_monitor = monitor

        def on_quiescent(rounds):
            # actors blocked at quiescence: unmarked waiters are legitimately asleep; marked ones were lost
            lost = [a for a in marked if a in inwait]
            if lost:
                out.bad("lost-wakeup", "marked-waiter-asleep",
                        f"actors {lost} were notified (cycles {[marked[a] for a in lost]}) but never returned")
                for a in lost:
                    marked.pop(a, None)
            for a in list(inwait):
                if a in queue:
                    note_cancel(a)

        res = await sim.run(len(case["actors"]), actor, on_quiescent=on_quiescent)
        for r in res:
            if isinstance(r, BaseException) and not isinstance(r, asyncio.CancelledError):
                raise r
        st = cond.statistics()
        if st.tasks_waiting or cond.locked():
            out.bad("end-state", "cond", f"tasks_waiting {st.tasks_waiting} locked {cond.locked()}")
        if sim.gave_up:
            out.bad("hang", "actors-stuck", "")

    return body


def run_case(case) -> Outcome:
    out = Outcome()
    if case["kind"] == "event":
        stats = {"set_with_waiters": 0, "cancel_before_set": 0}
        body = run_event(case, out, stats)
    else:
        stats = {"notify_n_lt_waiters": 0, "marked_waiter_cancelled": 0, "pass_on": 0, "cancel_around_notify": 0,
                 "credit_used": 0, "credit_redated": 0, "credit_created": 0}
        body = run_cond(case, out, stats)
    _res, err, _sim = run_sim(case["config"], body)
    if err is not None:
        out.bad("hang", err[0], err[1])
    if case["kind"] == "event":
        out.nontrivial = stats["cancel_before_set"] > 0 and stats["set_with_waiters"] > 0
    else:
        out.nontrivial = stats["notify_n_lt_waiters"] > 0 or stats["pass_on"] > 0
    for k, v in stats.items():
        if v:
            out.labels.append(k)
    out.labels.append(case["kind"])
    out.labels.append("config-" + case["config"])
    return out
