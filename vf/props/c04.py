"""C04 Cancellation containment: shields hold and the right scope absorbs (engine: vf/interp.py, generator: vf/progen.py)."""
import os

from ..gen import composite
from ..interp import run_program
from ..progen import gen_program, profile

ID = "C04"
PREFIX = ('c04:',)
PROFILE = profile(scope=22, cancel=16, shield=8, catch=12, group=8, spawn=8, wait=5, forever=4, ext=3, native_ext=12, wrap=12, **{'raise': 5}, patterns={'double_cancel': 1, 'native_in_cancelled_scope': 2, 'late_shield_after_observation': 2, 'native_at_group_join': 2, '_chance': 25})
RULE = ('Hypothesis-generated scope trees with arbitrary shield flags (toggled while active by the host), all orders of cancel() calls, exception groups mixing AnyIO cancellations with Boom reaching scope exits, native task.cancel() of children; non-trivial = an inner scope left with a cancellation in flight while it or an enclosing scope is cancelled/shielded; distinct = distinct canonical JSON')
ASSUMPTIONS = ["reference semantics (mirror) evaluated on public attributes cancel_called/shield of every scope on the chain; the only private access is fetching a child's handle scope object at its first step", 'every indefinite wait sits in a harness guard scope cancelled after 40 cycles', "asyncio's FIFO ready queue is not permuted; schedules vary through generated delays, cancel placement, external loop callbacks and loop configuration"]
TECHNIQUE = 'Hypothesis-generated programs compared with an independent reference semantics (effective cancellation / absorb rule) evaluated on the observable history'
LEVEL_TEXT = ('Reference semantics written from docs/cancellation.rst: every AnyIO cancellation raised in a task must coincide (within 2 cycles) with its current scope being effectively cancelled; at every scope exit what leaves equals what the absorb rule predicts from what arrived (also inside exception groups); cancelled_caught true exactly for absorbing scopes; other exceptions always pass, including native CancelledErrors: a task cancelled with Task.cancel() outside any cancellation handler (and not merged by asyncio into a cancellation already under way) must not complete normally. Exploration.')
LEVEL_NOTE = 'Trusted: the Mirror reference (vf/interp.py) over public cancel_called/shield; prediction made right before __exit__.'
DESIGN_REF = "3/C04"


def budget(tier):
    return 24000 if tier == "quick" else 500000


_strategy = composite(lambda g: gen_program(g, PROFILE))


def strategy(tier):
    return _strategy()


def run_case(case):
    out, stats, w, err = run_program(case)
    if not os.environ.get("VF_ALL_RULES"):
        out.viols = [v for v in out.viols if v.rule.startswith(PREFIX) or v.rule == "unexpected-exception"]
    out.nontrivial = bool(stats["exit_with_cancellation_in_flight"] > 0 and (stats["absorbed"] > 0 or stats["propagated"] > 0))
    out.labels = [k for k, v in stats.items() if v] + ["config-" + case["config"]]
    if case.get("pat"):
        out.labels.append("pattern-" + case["pat"])
    return out
