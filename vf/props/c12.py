"""C12 Memory object streams: exactly-once, ordered, bounded delivery (see vf/memstream.py)."""
from ..gen import composite
from ..memstream import gen_case, run_stream_case

ID = "C12"
RULE = ("Hypothesis-generated actor scripts over one memory object stream (max_buffer_size 0/1/2/inf, 1-3 clones per "
        "side, send/send_nowait/receive/receive_nowait, cancels by scope or natively incl. offsets -1/0/+1 around a "
        "hand-over to a parked peer; in a quarter of the scripts clones are closed / made along the way while a spare "
        "receive clone stays open; optional extra scopes around operations and tasks whose Task.cancelling() is 1 for "
        "life); non-trivial = two or more parties blocked at once, or a cancel landing within one "
        "cycle of a hand-over; distinct = distinct canonical JSON")
ASSUMPTIONS = [
    "ordering rules in interval form ([call cycle, return cycle]); FIFO of blocked parties: an earlier live waiter must "
    "return within 2 cycles of a later one being served",
    "in a quarter of the programs clones are closed / made along the way (also with an own operation in flight) while "
    "a spare receive clone stays open, so the receiving side is never fully closed; the harness drains the buffer at the end",
]
TECHNIQUE = "Hypothesis-generated actor programs; conservation (multiset) + interval-order + bound invariants over the observed history"
LEVEL_TEXT = ("Every accepted item is received exactly once or is still buffered at the end; nothing duplicated or "
              "invented; per-sender order and FIFO of blocked senders/receivers in interval form; buffer bound at every "
              "event and cycle; lost-wake-up monitor. Exploration on stock, eager and uvloop loops.")
LEVEL_NOTE = "Trusted: unique item tags, harness log of call/return cycles, public statistics()."
DESIGN_REF = "3/C12"


def budget(tier):
    return 20000 if tier == "quick" else 400000


def _gen(g):
    if g.chance(25):
        # clones are closed and made along the way, but a spare receive clone stays open to the end, so that the
        # receiving side is never fully closed and every accepted item must still be accounted for
        case = gen_case(g, closing=True)
        case["keep_r"] = True
        return case
    return gen_case(g, closing=False)


_strategy = composite(_gen)


def strategy(tier):
    return _strategy()


def run_case(case):
    out, stats = run_stream_case(case)
    out.viols = [v for v in out.viols if v.rule.startswith("c12:") or v.rule in ("hang", "unexpected-exception")]
    out.nontrivial = stats["two_blocked"] > 0 or stats["cancel_near_handover"] > 0
    return out
