"""C10 Semaphore and CapacityLimiter: permits are conserved and never over-granted.

Case = {"kind": "sem"|"lim"|"sync-sem"|"sync-lim", "config": S|E|U, ...}
 sem:  {"initial": n, "max": None|n, "fast": bool, "actors": [[step...]]}
       step = ["acq", d] | ["nw", d] | ["rel", d] | ["cancel", d, target, native] | ["relc", d, off, which, native]
 lim:  {"total": n|inf, "actors": [[step...]]}
       step = ["acq", d, b] | ["nw", d, b] | ["rel", d, b] | ["total", d, v] | ["cancel", ...] | ["relc", d, off, which, native, b]
              | ["totc", d, v, off, which, native]          b: 0 = own task, 1..3 = shared borrower objects
       both: ["multi", d, [["rel", b] | ["total", v] | ["nw", b] | ["cancel", which, native] ...]]  several actions in one cycle
 sync-*: {"ops": [...]}   histories over the *_nowait / setter API without tasks
"""
from __future__ import annotations

import asyncio
import math

import anyio
from anyio import CapacityLimiter, Semaphore, WouldBlock

from ..actors import run_sim
from hypothesis import strategies as st

from ..gen import composite
from ..runner import Outcome

ID = "C10"
RULE = ("Hypothesis-generated actor scripts over one Semaphore or CapacityLimiter (acquire, acquire_nowait, "
        "acquire_on_behalf_of, release, total_tokens assignments incl. 0/inf/lower-below-borrowed/raise-again, cancels "
        "placed around releases and total changes, steps bundling several such actions into one loop cycle) and task-free "
        "*_nowait/setter histories; non-trivial = a waiter "
        "granted through release or through a total_tokens raise, a cancelled waiter, or a total lowered below the "
        "number borrowed; distinct = distinct canonical JSON")
ASSUMPTIONS = [
    "two concurrent acquire_on_behalf_of waits for the same borrower object are not generated (implicit precondition)",
    "a grant to a woken waiter is observed through borrowed_tokens/value right after the call that caused it",
    "FIFO is judged in interval form: an earlier live waiter must return within 2 cycles of a later one's return",
]
TECHNIQUE = "Hypothesis-generated actor programs and task-free histories; conservation model + grant-legality invariant + FIFO interval oracle"
LEVEL_TEXT = ("Conservation model (permits = initial + releases / total_tokens), grant legality checked at every call "
              "that can grant (borrowed_tokens may only increase up to total_tokens), truthful value/borrowed/available, "
              "FIFO, error returns, lost-wake-up monitor, initial state after everyone released. Exploration.")
LEVEL_NOTE = "Trusted: harness bookkeeping of successful acquires/releases; public value/borrowed_tokens/statistics()."
DESIGN_REF = "3/C10"


def budget(tier):
    return 24000 if tier == "quick" else 400000


TOTALS = [0, 1, 2, 3, math.inf]


def _gen(g):
    kind = g.weighted([(30, "sem"), (45, "lim"), (8, "sync-sem"), (17, "sync-lim")])
    if kind == "sync-sem":
        ops = [g.choice(["nw", "nw", "rel"]) for _ in range(g.int(1, 14))]
        initial = g.int(0, 3)
        return {"kind": kind, "initial": initial, "max": g.choice([None, initial, initial + 1]), "ops": ops}
    if kind == "sync-lim":
        ops = []
        for _ in range(g.int(1, 16)):
            k = g.weighted([(40, "nw"), (35, "rel"), (25, "total")])
            if k == "total":
                ops.append([k, g.choice(TOTALS + [-1, 1.5])])
            else:
                ops.append([k, g.int(0, 3)])
        return {"kind": kind, "total": g.choice(TOTALS), "ops": ops}
    if g.chance(10):
        # targeted shape: one holder, three waiters queued in a fixed order, then release / cancels of the first
        # waiters / (limiter) a change of total_tokens all in one loop cycle, in a generated order
        subs = [["rel", 0], ["cancel", 0, g.chance(60)]]
        if g.chance(70):
            subs.append(["cancel", g.choice([0, 0, 1]), g.chance(30)])
        if kind == "lim" and g.chance(60):
            subs.append(["total", g.choice([0, 0, 1, 2])])
        subs = g.draw(st.permutations(subs))
        tail = [[g.choice(["rel", "nw", "acq"]), g.int(1, 3)] + ([0] if kind == "lim" else []) for _ in range(g.int(0, 2))]
        b0 = [0] if kind == "lim" else []
        actors = [[["acq", 0] + b0, ["multi", g.int(4, 6), list(subs)]] + tail,
                  [["acq", 1] + b0, ["rel", g.int(1, 3)] + b0],
                  [["acq", 2] + b0, ["rel", g.int(1, 3)] + b0],
                  [["acq", 3] + b0, ["rel", g.int(1, 3)] + b0]]
        case = {"kind": kind, "config": g.choice(["S", "S", "E", "U"]), "actors": actors,
                "nest": g.choice([0, 0, 1]), "adapter": False}
        if kind == "sem":
            case.update(initial=1, max=g.choice([None, 1]), fast=g.chance(20))
        else:
            case["total"] = 1
        return case
    n = g.int(2, 5)
    actors = []
    for _a in range(n):
        script = []
        for _ in range(g.int(2, 8)):
            d = g.int(0, 3)
            if g.chance(12):
                # several synchronous actions in one loop cycle (release / setter / cancels of queued waiters / nowait)
                subs = []
                for _ in range(g.int(2, 4)):
                    sk = g.weighted([(35, "rel"), (35, "cancel"), (0 if kind == "sem" else 22, "total"), (8, "nw")])
                    if sk == "cancel":
                        subs.append([sk, g.choice([0, 0, 1, 2]), g.chance(30)])
                    elif sk == "total":
                        subs.append([sk, g.choice(TOTALS)])
                    else:
                        subs.append([sk, 0 if kind == "sem" else g.choice([0, 0, 0, 1, 2, 3])])
                script.append(["multi", d, subs])
                continue
            if kind == "sem":
                k = g.weighted([(30, "acq"), (8, "nw"), (28, "rel"), (12, "cancel"), (22, "relc")])
                if k in ("acq", "nw", "rel"):
                    script.append([k, d])
                elif k == "cancel":
                    script.append([k, d, g.int(0, n - 1), g.chance(15)])
                else:
                    script.append([k, d, g.choice([-1, 0, 0, 1]), g.choice([0, 0, 1, 2]), g.chance(20)])
            else:
                k = g.weighted([(28, "acq"), (6, "nw"), (22, "rel"), (14, "total"), (10, "cancel"), (10, "relc"),
                                (10, "totc")])
                b = g.choice([0, 0, 0, 1, 2, 3])
                if k in ("acq", "nw", "rel"):
                    script.append([k, d, b])
                elif k == "total":
                    script.append([k, d, g.choice(TOTALS + [0, 1, -1, 1.5])])
                elif k == "cancel":
                    script.append([k, d, g.int(0, n - 1), g.chance(15)])
                elif k == "relc":
                    script.append([k, d, g.choice([-1, 0, 0, 1]), g.choice([0, 0, 1, 2]), g.chance(20), b])
                else:
                    script.append([k, d, g.choice(TOTALS), g.choice([-1, 0, 0, 1]), g.choice([0, 0, 1, 2]), g.chance(20)])
        actors.append(script)
    case = {"kind": kind, "config": g.choice(["S", "S", "E", "U"]), "actors": actors,
            "nest": g.choice([0, 0, 1, 2]), "adapter": g.chance(20), "residue": g.chance(12)}
    if kind == "sem":
        case["initial"] = g.int(0, 3)
        case["max"] = g.choice([None, None, case["initial"], case["initial"] + 1])
        case["fast"] = g.chance(20)
    else:
        case["total"] = g.choice(TOTALS)
    return case


_strategy = composite(_gen)


def strategy(tier):
    return _strategy()


# ------------------------------------------------------------------ task-free histories


def run_sync(case, out):
    async def main():
        if case["kind"] == "sync-sem":
            sem = Semaphore(case["initial"], max_value=case["max"])
            value = case["initial"]
            for op in case["ops"]:
                if op == "nw":
                    try:
                        sem.acquire_nowait()
                    except WouldBlock:
                        if value > 0:
                            out.bad("sync-sem-wouldblock-with-permits", "", f"{case}")
                    else:
                        if value == 0:
                            out.bad("over-grant", "sync-sem", f"{case}")
                        value -= 1
                else:
                    try:
                        sem.release()
                    except ValueError:
                        if case["max"] is None or value < case["max"]:
                            out.bad("sync-sem-release-refused", "", f"{case}")
                    else:
                        if case["max"] is not None and value >= case["max"]:
                            out.bad("release-above-max-accepted", "sync", f"{case}")
                        value += 1
                if sem.value != value:
                    out.bad("value-untruthful", "sync-sem", f"{case}: value {sem.value} model {value}")
            return
        lim = CapacityLimiter(case["total"])
        total = case["total"]
        borrowers = set()
        objs = {i: object() for i in range(4)}
        for op in case["ops"]:
            k, a = op
            if k == "nw":
                try:
                    lim.acquire_on_behalf_of_nowait(objs[a])
                except WouldBlock:
                    if a not in borrowers and len(borrowers) < total:
                        out.bad("sync-lim-wouldblock-with-tokens", "", f"{case}")
                except RuntimeError:
                    if a not in borrowers:
                        out.bad("sync-lim-runtimeerror", "", f"{case}")
                else:
                    if a in borrowers:
                        out.bad("double-borrow-accepted", "sync", f"{case}")
                    if len(borrowers) >= total:
                        out.bad("over-grant", "sync-lim", f"{case}: borrowed {len(borrowers)} total {total}")
                    borrowers.add(a)
            elif k == "rel":
                try:
                    lim.release_on_behalf_of(objs[a])
                except RuntimeError:
                    if a in borrowers:
                        out.bad("borrower-release-refused", "sync", f"{case}")
                else:
                    if a not in borrowers:
                        out.bad("non-borrower-release-accepted", "sync", f"{case}")
                    borrowers.discard(a)
            else:
                try:
                    lim.total_tokens = a
                except (TypeError, ValueError):
                    if a in TOTALS:
                        out.bad("setter-refused-valid", "", f"{case}")
                else:
                    if a not in TOTALS:
                        out.bad("setter-accepted-invalid", "", f"{case}: {a}")
                    total = a
            if lim.borrowed_tokens != len(borrowers) or lim.available_tokens != total - len(borrowers) \
                    or lim.total_tokens != total:
                out.bad("counts-untruthful", "sync-lim",
                        f"{case}: borrowed {lim.borrowed_tokens}/{len(borrowers)} available {lim.available_tokens} "
                        f"total {lim.total_tokens}/{total}")

    loop = asyncio.new_event_loop()
    try:
        loop.run_until_complete(main())
    finally:
        loop.close()


# ------------------------------------------------------------------ actor programs


def run_case(case) -> Outcome:
    out = Outcome()
    kind = case["kind"]
    if kind.startswith("sync"):
        run_sync(case, out)
        out.nontrivial = any((op == "rel" or (isinstance(op, list) and op[0] in ("rel", "total"))) for op in case["ops"])
        out.labels.append(kind)
        return out
    stats = {"granted_by_release": 0, "granted_by_total": 0, "cancelled_waiter": 0, "lowered_below_borrowed": 0,
             "handoff_cancel": 0, "native": 0, "multi_cancel_one_cycle": 0}
    is_sem = kind == "sem"

    prebuilt = None
    if case.get("adapter"):
        # created outside any event loop: an adapter that binds to the backend on first use
        prebuilt = (Semaphore(case["initial"], max_value=case["max"], fast_acquire=case["fast"]) if is_sem
                    else CapacityLimiter(case["total"]))

    async def body(sim):
        sim.nest = case.get("nest", 0)
        sim.residue = bool(case.get("residue"))
        if prebuilt is not None:
            prim = prebuilt
        elif is_sem:
            prim = Semaphore(case["initial"], max_value=case["max"], fast_acquire=case["fast"])
        else:
            prim = CapacityLimiter(case["total"])
        pool = {i: object() for i in (1, 2, 3)}
        held = {}            # sem: aid -> count held ; lim: borrower key -> holder aid
        permits = [case["initial"]] if is_sem else None      # sem: initial + releases - acquire returns
        waiting = {}         # aid -> [seq, call_cycle, borrower_key]
        seq = [0]
        suspects = []        # (later aid, earlier aid, earlier seq, cycle)

        def bkey(aid, b):
            return ("task", aid) if b == 0 else ("obj", b)

        def bobj(aid, b):
            return sim.tasks[aid] if b == 0 else pool[b]

        def live_waiters(exclude=None):
            """Actors that found no free permit when they called acquire (really queued), not being cancelled."""
            return [a for a in sorted(waiting, key=lambda a: waiting[a][0])
                    if a != exclude and waiting[a][3] and not sim.cancel_requested(a)]

        def must_queue():
            if is_sem:
                return prim.value == 0 or prim.statistics().tasks_waiting > 0
            return prim.available_tokens <= 0 or prim.statistics().tasks_waiting > 0

        def busy_key(key):
            return any(w[2] == key for w in waiting.values())

        last_b = [0]
        cap_hist = []        # (cycle, total_tokens, number of borrowers whose acquire has returned) at every look

        def watch(where):
            """Grant legality: whenever borrowed_tokens has risen since the last look it must be <= total_tokens.
            Called before and after every harness call and once per loop cycle, in particular right before every
            total_tokens assignment, so a legal rise is always seen with the total that was in force."""
            if is_sem:
                return
            b = prim.borrowed_tokens
            cap_hist.append((sim.now(), prim.total_tokens, len(held)))
            if len(cap_hist) > 400:
                del cap_hist[:200]
            if b > last_b[0] and b > prim.total_tokens:
                out.bad("over-grant", "lim", f"{where}: borrowed_tokens rose {last_b[0]}->{b} with total_tokens "
                                             f"{prim.total_tokens}")
            last_b[0] = b

        def observe(where, before=None):
            """Truthfulness of the public counters against the model; grant legality."""
            watch(where)
            nwait = len(waiting)
            if is_sem:
                v = prim.value
                if v < 0:
                    out.bad("negative-value", "", f"{where}: value {v}")
                diff = permits[0] - v
                if diff < 0 or diff > nwait:
                    out.bad("value-untruthful", "sem", f"{where}: value {v} permits {permits[0]} waiting {nwait}")
            else:
                b = prim.borrowed_tokens
                diff = b - len(held)
                if diff < 0 or diff > nwait:
                    out.bad("counts-untruthful", "lim-borrowed",
                            f"{where}: borrowed {b} model {len(held)} waiting {nwait}")
                if prim.available_tokens != prim.total_tokens - b:
                    out.bad("counts-untruthful", "lim-available", f"{where}")
                if before is not None and b > before and b > prim.total_tokens:
                    out.bad("over-grant", "lim", f"{where}: borrowed rose {before}->{b} with total {prim.total_tokens}")

        def do_cancel(target, native):
            if target in waiting and not sim.cancel_requested(target):
                stats["cancelled_waiter"] += 1
            if native:
                if sim.native_cancel(target):
                    stats["native"] += 1
            else:
                sim.cancel(target)

        def do_release(aid, b=0):
            nlive = len(live_waiters())
            if is_sem:
                v0 = prim.value
                mx = case["max"]
                if mx is not None and not held.get(aid):
                    # release by a non-holder of a bounded semaphore: generated only where the bound cannot be
                    # overrun by a later undo (total permits stay <= max), or where it must be refused
                    total_permits = permits[0] + sum(held.values())
                    if not (total_permits < mx or v0 == mx):
                        return
                try:
                    prim.release()
                except ValueError:
                    if case["max"] is None or v0 != case["max"]:
                        out.bad("release-refused", "sem", f"value {v0} max {case['max']}")
                    return
                if case["max"] is not None and v0 == case["max"]:
                    out.bad("release-above-max-accepted", "sem", f"value {v0} max {case['max']}")
                permits[0] += 1
                if nlive and prim.value == v0:
                    stats["granted_by_release"] += 1
                observe("release")
                return
            key = bkey(aid, b)
            if busy_key(key):
                return          # an acquire for this shared borrower is in flight (excluded by construction)
            watch("before release")
            before = prim.borrowed_tokens
            try:
                prim.release_on_behalf_of(bobj(aid, b))
            except RuntimeError:
                if key in held:
                    out.bad("borrower-release-refused", "lim", f"{key}")
                return
            if key not in held:
                out.bad("non-borrower-release-accepted", "lim", f"{key}")
            held.pop(key, None)
            if nlive and prim.borrowed_tokens == before:
                stats["granted_by_release"] += 1
            observe("release", before - 1)

        def set_total(v):
            watch("before total_tokens=%s" % v)
            before = prim.borrowed_tokens
            nlive = len(live_waiters())
            try:
                prim.total_tokens = v
            except (TypeError, ValueError):
                if v in TOTALS:
                    out.bad("setter-refused-valid", "", f"{v}")
                return
            if v not in TOTALS:
                out.bad("setter-accepted-invalid", "", f"{v}")
                return
            if v < before:
                stats["lowered_below_borrowed"] += 1
            if nlive and prim.borrowed_tokens > before:
                stats["granted_by_total"] += 1
            observe("total_tokens=%s" % v, before)

        async def acquire(aid, b):
            key = bkey(aid, b)
            if not is_sem:
                if key in held:
                    # a borrower cannot hold two tokens
                    try:
                        await prim.acquire_on_behalf_of(bobj(aid, b))
                        out.bad("double-borrow-accepted", "lim", f"{key}")
                    except RuntimeError:
                        pass
                    return
                if busy_key(key):
                    return      # excluded by construction: concurrent use of one borrower identity
            seq[0] += 1
            watch("before acquire")
            me = waiting[aid] = [seq[0], sim.now(), key, must_queue()]
            got = False
            before = None if is_sem else prim.borrowed_tokens
            try:
                with sim.op(aid):
                    try:
                        if is_sem:
                            await prim.acquire()
                        elif b == 0:
                            await prim.acquire()
                        else:
                            await prim.acquire_on_behalf_of(pool[b])
                        got = True
                    finally:
                        waiting.pop(aid, None)
            except asyncio.CancelledError:
                asyncio.current_task().uncancel()
                sim.native_req.discard(aid)
            if not got:
                observe("acquire-raised")
                return
            if is_sem:
                permits[0] -= 1
                if permits[0] < 0:
                    out.bad("over-grant", "sem", f"actor {aid}: more acquires returned than permits exist")
                held[aid] = held.get(aid, 0) + 1
            else:
                if key in held:
                    out.bad("double-borrow-accepted", "lim-wait", f"{key}")
                # grant legality, second form: a waiter resumes in the cycle after the one in which it was granted the
                # token, and the grant needs total_tokens > tokens held by others at that instant. total_tokens only
                # changes at harness calls (all recorded), and the tokens of returned borrowers are a lower bound on
                # the tokens in use, so "total <= returned holders at every look of the last two cycles" is illegal
                watch("acquire-returned")
                pts = [p for p in cap_hist if p[0] >= sim.now() - 1]
                if pts and all(t <= h for _c, t, h in pts):
                    out.bad("over-grant", "lim-no-capacity-in-grant-window",
                            f"{key} was granted a token at cycle {sim.now() - 1}..{sim.now()} although total_tokens "
                            f"never exceeded the tokens of returned borrowers there: {pts[-6:]}")
                held[key] = aid
                if len(held) > prim.total_tokens and prim.borrowed_tokens > prim.total_tokens and before is not None \
                        and prim.borrowed_tokens > before and me[1] == sim.now():
                    out.bad("over-grant", "lim-direct", f"{key}")
            for other in live_waiters(exclude=aid):
                if waiting[other][0] < me[0]:
                    suspects.append((aid, other, waiting[other][0], sim.now()))
            observe("acquire-returned")

        def nowait(aid, b):
            key = bkey(aid, b)
            if is_sem:
                v0 = prim.value
                try:
                    prim.acquire_nowait()
                except WouldBlock:
                    if v0 > 0:
                        out.bad("nowait-wouldblock-with-permits", "sem", f"value {v0}")
                    return
                if v0 <= 0:
                    out.bad("over-grant", "sem-nowait", f"value {v0}")
                permits[0] -= 1
                held[aid] = held.get(aid, 0) + 1
                for other in live_waiters():
                    suspects.append((("nowait", aid), other, waiting[other][0], sim.now()))
                observe("nowait")
                return
            if busy_key(key):
                return
            watch("before nowait")
            before = prim.borrowed_tokens
            try:
                prim.acquire_on_behalf_of_nowait(bobj(aid, b))
            except WouldBlock:
                if key not in held and not waiting and before < prim.total_tokens:
                    out.bad("nowait-wouldblock-with-tokens", "lim", f"{key}")
                return
            except RuntimeError:
                if key not in held:
                    out.bad("nowait-runtimeerror", "lim", f"{key}")
                return
            if key in held:
                out.bad("double-borrow-accepted", "lim-nowait", f"{key}")
            held[key] = aid
            for other in live_waiters():
                suspects.append((("nowait", aid), other, waiting[other][0], sim.now()))
            observe("nowait", before)

        def pick(which):
            lw = live_waiters()
            if not lw:
                return None
            return lw[min(which, len(lw) - 1)] if which < 2 else lw[-1]

        async def around(off, target, native, action):
            if target is not None:
                stats["handoff_cancel"] += 1
            if off == -1:
                if target is not None:
                    do_cancel(target, native)
                await asyncio.sleep(0)
                action()
            elif off == 0:
                action()
                if target is not None:
                    do_cancel(target, native)
            else:
                action()
                await asyncio.sleep(0)
                if target is not None:
                    do_cancel(target, native)

        async def do_step(aid, step):
            await sim.delay(step[1])
            sim.progress += 1
            k = step[0]
            if k == "acq":
                await acquire(aid, step[2] if not is_sem else 0)
            elif k == "nw":
                nowait(aid, step[2] if not is_sem else 0)
            elif k == "rel":
                if is_sem:
                    do_release(aid)
                    if held.get(aid):
                        held[aid] -= 1
                else:
                    do_release(aid, step[2])
            elif k == "total":
                set_total(step[2])
            elif k == "cancel":
                do_cancel(step[2], step[3])
            elif k == "relc":
                b = 0 if is_sem else step[5]
                if is_sem and not held.get(aid):
                    return
                if not is_sem and bkey(aid, b) not in held:
                    return

                def act():
                    do_release(aid, b)
                    if is_sem and held.get(aid):
                        held[aid] -= 1
                await around(step[2], pick(step[3]), step[4], act)
            elif k == "totc":
                await around(step[3], pick(step[4]), step[5], lambda: set_total(step[2]))
            elif k == "multi":
                ncancel = 0
                for sub in step[2]:
                    if sub[0] == "rel":
                        b = 0 if is_sem else sub[1]
                        if is_sem:
                            do_release(aid)
                            if held.get(aid):
                                held[aid] -= 1
                        else:
                            do_release(aid, b)
                    elif sub[0] == "total":
                        set_total(sub[1])
                    elif sub[0] == "nw":
                        nowait(aid, 0 if is_sem else sub[1])
                    else:
                        target = pick(sub[1])
                        if target is not None:
                            ncancel += 1
                            do_cancel(target, sub[2])
                if ncancel:
                    stats["handoff_cancel"] += 1
                if ncancel >= 2:
                    stats["multi_cancel_one_cycle"] += 1

        async def actor(aid):
            task = asyncio.current_task()
            for step in case["actors"][aid]:
                if sim.draining:
                    break
                try:
                    await do_step(aid, step)
                except asyncio.CancelledError:
                    task.uncancel()
                    sim.native_req.discard(aid)
            # give back what this actor still holds
            if is_sem:
                while held.get(aid):
                    held[aid] -= 1
                    try:
                        prim.release()
                        permits[0] += 1
                    except ValueError:
                        pass
            else:
                for key, owner in list(held.items()):
                    if owner == aid:
                        held.pop(key)
                        prim.release_on_behalf_of(sim.tasks[aid] if key[0] == "task" else pool[key[1]])

        idle = [0]

        def monitor(lp):
            watch("cycle %d" % lp.cycle)
            free = prim.value > 0 if is_sem else prim.available_tokens > 0
            if free and live_waiters():
                idle[0] += 1
                if idle[0] == 3:
                    out.bad("lost-wakeup", "free-with-live-waiters",
                            f"cycle {lp.cycle}: waiters {live_waiters()} while a permit is free")
            else:
                idle[0] = 0
            for s in list(suspects):
                later, earlier, eseq, cyc = s
                w = waiting.get(earlier)
                if w is None or w[0] != eseq or sim.cancel_requested(earlier):
                    suspects.remove(s)
                elif lp.cycle >= cyc + 3:
                    suspects.remove(s)
                    rule = "barging" if isinstance(later, tuple) else "fifo-overtaken"
                    out.bad(rule, kind, f"{later} was granted at cycle {cyc} while earlier live waiter "
                                        f"{earlier} (seq {eseq}) still waits at {lp.cycle}")

        sim.on_monitor = monitor
        res = await sim.run(len(case["actors"]), actor)
        sim.on_monitor = None
        for r in res:
            if isinstance(r, BaseException) and not isinstance(r, asyncio.CancelledError):
                raise r
        # quiescent end state: equality, nobody waiting
        if is_sem:
            st = prim.statistics()
            if prim.value != permits[0] or st.tasks_waiting:
                out.bad("end-state", "sem", f"value {prim.value} expected {permits[0]} waiting {st.tasks_waiting}")
        else:
            st = prim.statistics()
            if prim.borrowed_tokens != 0 or st.tasks_waiting or held:
                out.bad("end-state", "lim", f"{st} model {held}")
        if sim.gave_up:
            out.bad("hang", "actors-stuck", "")

    _res, err, _sim = run_sim(case["config"], body)
    if err is not None:
        out.bad("hang", err[0], err[1])
    out.nontrivial = any(stats[k] for k in ("granted_by_release", "granted_by_total", "cancelled_waiter",
                                            "lowered_below_borrowed"))
    for k, v in stats.items():
        if v:
            out.labels.append(k)
    out.labels.append(kind)
    out.labels.append("config-" + case["config"])
    return out
