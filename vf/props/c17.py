"""C17 TLS streams: faithful transport over any fragmentation, truncation detected.

Case = {"ver": "1.2"|"1.3", "sc": [client_standard_compatible, server_standard_compatible],
        "chunks": {"cs": [sizes...], "sc": [sizes...]},          re-chunking plan per direction (cycled)
        "cut": None | [direction "cs"|"sc", byte offset in that direction's ciphertext],
        "msgs": {"c": [sizes...], "s": [sizes...]}, "recv": {"c": [sizes...], "s": [sizes...]},
        "closer": "c"|"s"}
In-memory duplex transport on the virtual-time loop: no sockets, deadlock detection applies.
"""
from __future__ import annotations

import asyncio
import ssl

import anyio
from anyio import (BrokenResourceError, BusyResourceError, CancelScope, ClosedResourceError, EndOfStream,
                   create_task_group)
from anyio.abc import ByteStream
from anyio.streams.tls import TLSStream

from ..gen import composite
from ..loops import BudgetExceeded, Deadlock, run_on
from ..runner import Outcome

ID = "C17"
RULE = ("Hypothesis-generated TLS sessions over an in-memory duplex transport: TLS 1.2/1.3, standard_compatible on/off "
        "per side, message-size sequences 0..200000 bytes in both directions at once, receive sizes 1..70000, transport "
        "re-chunking plans (1-byte chunks, coalescing, sizes around the 16 KiB record limit), optional truncation of one "
        "direction at a generated ciphertext offset (handshake, mid-record, between records, before close_notify); "
        "non-trivial = a payload spanning more than one TLS record with chunking that is not record-aligned, or a "
        "truncation; distinct = distinct canonical JSON")
ASSUMPTIONS = [
    "the in-memory transport rejects overlapping send() calls with BusyResourceError, like every real byte stream, and a "
    "send takes one loop cycle per 16 KiB",
    "explicit SSL contexts with OP_IGNORE_UNEXPECTED_EOF cleared (as anyio does for the contexts it creates itself)",
    "truncation = the transport's receive raises EndOfStream after the cut offset; bytes after it are dropped",
    "the phase of a cut is classified from what was observed (bytes actually dropped), not predicted",
]
TECHNIQUE = "Hypothesis-generated sessions on an in-memory transport with generated fragmentation and truncation faults; round-trip (prefix) oracle + end-of-stream classification rules"
LEVEL_TEXT = ("Round trip: what each side receives is a prefix of (without truncation: equal to) what the peer sent, in "
              "order, each receive(n) returning 1..n bytes; end of stream: EndOfStream under standard_compatible only "
              "after the peer's closing handshake with nothing dropped, truncation reported as BrokenResourceError "
              "(EndOfStream when not standard_compatible), also inside wrap(); no deadlock of the pump loop. Exploration "
              "with fault injection.")
LEVEL_NOTE = "Trusted: the in-memory transport double, OpenSSL via the ssl module, trustme certificates."
DESIGN_REF = "3/C17"
CASE_TIMEOUT_S = 300
JOBS_PER_WORKER = 1      # few, expensive cases: keep Hypothesis runs long enough to leave the trivial examples


def budget(tier):
    return 700 if tier == "quick" else 20000


PLANS = [[1], [2, 3], [7, 100], [1000], [16384], [16383, 1], [16385, 3], [5, 40000], [100000]]


def _gen(g):
    def sizes(n, pool):
        return [g.choice(pool) for _ in range(g.int(0, n))]

    cut = None
    if g.chance(40):
        rng = g.weighted([(30, (0, 700)), (30, (700, 4000)), (40, (4000, 60000))])
        cut = [g.choice(["cs", "sc"]), g.int(*rng)]
    chunks = {"cs": g.choice(PLANS), "sc": g.choice(PLANS)}
    tiny = any(max(p) <= 3 for p in chunks.values())      # byte-wise transports: keep payloads small (cycles ~ bytes)
    return {"ver": g.choice(["1.2", "1.3"]), "sc": [g.chance(75), g.chance(75)],
            "chunks": chunks, "cut": cut,
            "msgs": {"c": sizes(8, [0, 1, 5, 100, 3000, 6000, 10000, 16384, 16385] + ([] if tiny else [40000, 70000, 200000])),
                     "s": sizes(8, [0, 1, 5, 100, 3000, 6000, 10000, 16384, 16385] + ([] if tiny else [40000, 70000, 200000]))},
            "recv": {"c": [g.choice([1, 7, 100, 1000, 16384, 20000, 30000, 65536, 70000]) for _ in range(g.int(1, 3))],
                     "s": [g.choice([1, 7, 100, 1000, 16384, 20000, 30000, 65536, 70000]) for _ in range(g.int(1, 3))]},
            "closer": g.choice(["c", "s"])}
    # (cases may carry "doomed": {side: [receive indexes]} = receives made in an already cancelled scope; NOT generated:
    # the statement does not quantify over cancellation, and on the unchanged tree a receive() cancelled while it
    # flushes pending outgoing TLS data loses that data - see DESIGN 9.2)


_strategy = composite(_gen)


def strategy(tier):
    return _strategy()


class Pipe:
    """One direction of the transport: byte queue re-chunked by a plan, optionally truncated after ``cut`` bytes."""

    def __init__(self, plan, cut):
        self.buf = bytearray()
        self.eof = False
        self.ev = asyncio.Event()
        self.plan, self.pi = plan, 0
        self.cut = cut
        self.written = 0
        self.delivered = 0

    def write(self, data):
        self.written += len(data)
        self.buf += data
        self.ev.set()

    def close(self):
        self.eof = True
        self.ev.set()

    def dropped(self):
        return self.cut is not None and self.written > self.cut

    async def read(self, max_bytes):
        await asyncio.sleep(0)
        while True:
            if self.cut is not None and self.delivered >= self.cut:
                raise EndOfStream
            if self.buf:
                n = min(self.plan[self.pi % len(self.plan)], max_bytes, len(self.buf))
                self.pi += 1
                if self.cut is not None:
                    n = min(n, self.cut - self.delivered)
                out = bytes(self.buf[:n])
                del self.buf[:n]
                self.delivered += n
                return out
            if self.eof:
                raise EndOfStream
            self.ev.clear()
            await self.ev.wait()


class End(ByteStream):
    def __init__(self, rx, tx):
        self.rx, self.tx = rx, tx
        self.closed = False
        self.sending = False
        self.overlap = False

    async def receive(self, max_bytes=65536):
        if self.closed:
            raise ClosedResourceError
        return await self.rx.read(max_bytes)

    async def send(self, item):
        if self.closed:
            raise ClosedResourceError
        if self.sending:
            # like every real byte stream: two tasks writing at once are rejected (and remembered for the verdict)
            self.overlap = True
            raise BusyResourceError("sending to")
        self.sending = True
        try:
            for _ in range(1 + len(item) // 16384):
                await asyncio.sleep(0)
            self.tx.write(item)
        finally:
            self.sending = False

    async def send_eof(self):
        self.tx.close()

    async def aclose(self):
        self.closed = True
        self.tx.close()
        await asyncio.sleep(0)


_ctx = {}


def contexts(ver):
    if "ca" not in _ctx:
        import trustme

        ca = trustme.CA()
        server = ssl.SSLContext(ssl.PROTOCOL_TLS_SERVER)
        ca.issue_cert("localhost").configure_cert(server)
        if hasattr(ssl, "OP_IGNORE_UNEXPECTED_EOF"):
            server.options &= ~ssl.OP_IGNORE_UNEXPECTED_EOF
        _ctx["ca"], _ctx["server"] = ca, server
    key = "client" + ver
    if key not in _ctx:
        c = ssl.create_default_context(ssl.Purpose.SERVER_AUTH)
        _ctx["ca"].configure_trust(c)
        if hasattr(ssl, "OP_IGNORE_UNEXPECTED_EOF"):
            c.options &= ~ssl.OP_IGNORE_UNEXPECTED_EOF
        c.maximum_version = ssl.TLSVersion.TLSv1_2 if ver == "1.2" else ssl.TLSVersion.TLSv1_3
        _ctx[key] = c
    return _ctx["server"], _ctx[key]


def payload(side, sizes):
    out = bytearray()
    for i, n in enumerate(sizes):
        out += bytes((ord("A") if side == "c" else ord("a")) + (i + j) % 23 for j in range(n))
    return bytes(out)


def run_case(case) -> Outcome:
    out = Outcome()
    server_ctx, client_ctx = contexts(case["ver"])
    cut = case["cut"]
    res = {"c": {}, "s": {}}
    pipes = {}

    async def main(loop):
        cs = Pipe(case["chunks"]["cs"], cut[1] if cut and cut[0] == "cs" else None)   # client -> server
        sc = Pipe(case["chunks"]["sc"], cut[1] if cut and cut[0] == "sc" else None)   # server -> client
        pipes["cs"], pipes["sc"] = cs, sc
        ends = {"c": End(sc, cs), "s": End(cs, sc)}
        sent = {"c": payload("c", case["msgs"]["c"]), "s": payload("s", case["msgs"]["s"])}
        doomed = {k: set(v) for k, v in (case.get("doomed") or {}).items()}
        res["ends"] = ends
        done_sending = {"c": asyncio.Event(), "s": asyncio.Event()}

        async def side(me):
            peer = "s" if me == "c" else "c"
            r = res[me]
            r["recv"] = bytearray()
            r["end"] = None
            r["closed_cleanly"] = False
            r["aclose_called"] = False
            stdc = case["sc"][0 if me == "c" else 1]
            try:
                try:
                    if me == "c":
                        tls = await TLSStream.wrap(ends[me], hostname="localhost", ssl_context=client_ctx,
                                                   standard_compatible=stdc)
                    else:
                        tls = await TLSStream.wrap(ends[me], server_side=True, ssl_context=server_ctx,
                                                   standard_compatible=stdc)
                except EndOfStream:
                    r["end"] = "wrap:EndOfStream"
                    return
                except BrokenResourceError:
                    r["end"] = "wrap:BrokenResourceError"
                    return
                except ssl.SSLError as e:
                    r["end"] = "wrap:SSLError:" + type(e).__name__
                    return
                r["handshake"] = True

                async def sender():
                    try:
                        for i, n in enumerate(case["msgs"][me]):
                            await tls.send(payload(me, case["msgs"][me])[sum(case["msgs"][me][:i]):][:n])
                    except (BrokenResourceError, ClosedResourceError, EndOfStream, ssl.SSLError) as e:
                        r["send_error"] = type(e).__name__
                    finally:
                        done_sending[me].set()

                async with create_task_group() as tg:
                    tg.start_soon(sender)
                    sizes = case["recv"][me]
                    i = 0
                    while True:
                        if me == case["closer"] and len(r["recv"]) >= len(sent[peer]) and done_sending[me].is_set():
                            break
                        if me == case["closer"] and len(r["recv"]) >= len(sent[peer]):
                            await done_sending[me].wait()
                            break
                        n = sizes[i % len(sizes)]
                        i += 1
                        if i in doomed.get(me, ()):
                            # a receive() made in an already cancelled scope: it either raises or hands out data,
                            # but nothing may get lost
                            with CancelScope() as dsc:
                                dsc.cancel()
                                try:
                                    r["recv"] += await tls.receive(n)
                                except (EndOfStream, BrokenResourceError, ssl.SSLError):
                                    pass
                            r["doomed"] = r.get("doomed", 0) + 1
                        try:
                            data = await tls.receive(n)
                        except EndOfStream:
                            r["end"] = "EndOfStream"
                            break
                        except BrokenResourceError:
                            r["end"] = "BrokenResourceError"
                            break
                        except ssl.SSLError as e:
                            r["end"] = "SSLError:" + type(e).__name__
                            break
                        if not (1 <= len(data) <= n):
                            out.bad("receive-size", "", f"receive({n}) returned {len(data)} bytes")
                        r["recv"] += data
                    await done_sending[me].wait()
                r["aclose_called"] = True
                r["aclose_sc"] = stdc
                try:
                    await tls.aclose()
                    r["closed_cleanly"] = True
                except (BrokenResourceError, EndOfStream, ssl.SSLError, ClosedResourceError) as e:
                    r["aclose_error"] = type(e).__name__
            finally:
                # like closing the socket: the peer sees end of data in both directions
                ends[me].tx.close()
                r["finished"] = True

        async with create_task_group() as tg:
            tg.start_soon(side, "c")
            tg.start_soon(side, "s")
        res["sent"] = sent

    try:
        run_on("S", main, budget=1500000)
    except Deadlock as e:
        out.bad("hang", "deadlock", f"{case}: {e!r}")
        return out
    except BudgetExceeded as e:
        out.bad("hang", "busy-loop", f"{case}: {e!r}")
        return out
    sent = res["sent"]
    for me in "cs":
        if res["ends"][me].overlap:
            out.bad("concurrent-send-on-transport", me, f"{case}: two tasks of side {me} wrote to the wrapped stream at once")
    for me, peer, pipe in (("c", "s", pipes["sc"]), ("s", "c", pipes["cs"])):
        r = res[me]
        got = bytes(r.get("recv", b""))
        if not sent[peer].startswith(got):
            out.bad("data-corrupted", me, f"{case}: side {me} received {len(got)} bytes that are not a prefix of what "
                                          f"the peer sent")
        stdc = case["sc"][0 if me == "c" else 1]
        pr = res[peer]
        dropped = pipe.dropped()
        end = r.get("end")
        peer_clean_close = bool(pr.get("aclose_called") and pr.get("aclose_sc") and not dropped)
        if end == "EndOfStream":
            if stdc and not peer_clean_close:
                out.bad("truncation-reported-as-eof", me,
                        f"{case}: side {me} (standard_compatible) got EndOfStream; peer closing handshake="
                        f"{pr.get('aclose_called')}/{pr.get('aclose_sc')}, bytes dropped={dropped}")
            if peer_clean_close and pr.get("closed_cleanly") and got != sent[peer] and not pr.get("send_error"):
                out.bad("data-lost-before-eof", me, f"{case}: clean end of stream after {len(got)} of {len(sent[peer])} bytes")
        elif end == "BrokenResourceError":
            if not stdc:
                out.bad("broken-without-standard-compatible", me, f"{case}")
            elif peer_clean_close and pr.get("closed_cleanly"):
                out.bad("clean-close-reported-as-broken", me, f"{case}")
        elif end == "wrap:EndOfStream" and stdc:
            out.bad("truncation-reported-as-eof", "wrap-" + me, f"{case}: wrap() raised EndOfStream under standard_compatible")
        if cut is None and me != case["closer"] and end is None and r.get("handshake"):
            out.bad("no-end-of-stream", me, f"{case}")
        if cut is None and r.get("handshake") and pr.get("handshake") and got != sent[peer] \
                and not r.get("send_error") and not pr.get("send_error") and (me == case["closer"] or end == "EndOfStream"):
            out.bad("data-incomplete", me, f"{case}: {len(got)} of {len(sent[peer])} bytes")
    multi = any(n > 16384 for n in case["msgs"]["c"] + case["msgs"]["s"])
    out.nontrivial = bool(cut) or (multi and (case["chunks"]["cs"] not in ([100000],) or case["chunks"]["sc"] not in ([100000],)))
    out.labels.append("tls" + case["ver"])
    if cut:
        which = pipes[cut[0]]
        out.labels.append("cut-dropped-bytes" if which.dropped() else "cut-beyond-end")
        if not res["c"].get("handshake") or not res["s"].get("handshake"):
            out.labels.append("cut-during-handshake")
    for me in "cs":
        if res[me].get("end"):
            out.labels.append(f"end:{res[me]['end']}")
        if res[me].get("doomed"):
            out.labels.append("receive-in-cancelled-scope")
    if case["chunks"]["cs"] == [1] or case["chunks"]["sc"] == [1]:
        out.labels.append("1-byte-chunks")
    out.history = {k: (v.get("end"), len(v.get("recv", b""))) for k, v in res.items() if k in "cs"}
    return out
