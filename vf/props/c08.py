"""C08 Checkpoint discipline: operation x can-complete-without-waiting state x {not cancelled, cancelled} x loop.

Case = {"cell": name, "cancelled": bool, "config": "S"|"E"|"U", "pre": {prefix parameters}}
"""
from __future__ import annotations

import asyncio
import os
import math

import anyio
import anyio.functools
import anyio.itertools as ait
from anyio import (CancelScope, CapacityLimiter, Condition, Event, Lock, Semaphore,
                   create_memory_object_stream, create_task_group, lowlevel, to_thread)

from ..gen import composite
from ..loops import BudgetExceeded, Deadlock, run_on
from ..runner import Outcome

ID = "C08"
EXHAUSTIVE = True
EXHAUSTIVE_NOTE = ("every cell of the operation x state table (primitives + 25 itertools entry points x 7 source "
                   "shapes + reduce) x {not cancelled, cancelled} x {stock, eager, uvloop} with the default prefix")
RULE = ("one case = one table cell reached through a generated prefix history (prior acquire/release cycles by other "
        "tasks, initial values, other borrowers, buffer fill, how the scope came to be cancelled: own scope, parent "
        "scope, past deadline, after k already-delivered cancellations, or a scope above the task group of a child task "
        "that makes the call while the host sits behind a shield, during the shielded checkpoint of a prior operation, "
        "or a shielded scope that is itself cancelled); in the cancelled mode the cell's state snapshot is "
        "also taken from a loop callback while the doomed call is suspended; every cell is non-trivial by construction; "
        "distinct = distinct (cell, cancelled, config, prefix)")
ASSUMPTIONS = [
    "exempt and not demanded: fast_acquire=True, *_nowait, close",
    "callbacks handed to reduce/itertools never yield themselves; reduce is demanded only where the user function "
    "is never called (empty+initial, single element), as the code documents",
    "asynchronous sources are used only in the 'yields nothing' shape",
    "to_thread.run_sync rows run on real-time loops (threads), all others on harness-owned loops",
]
TECHNIQUE = "exhaustive operation x state table + Hypothesis-generated prefix histories; yield-marker and state-unchanged oracles"
LEVEL_TEXT = ("Each cell: not cancelled -> a callback queued with call_soon right before the call must have run when "
              "the call returns; cancelled -> the call raises the cancellation and the public state of the object is "
              "unchanged. Exhaustive over the table, sampled over prefix histories.")
LEVEL_NOTE = "Trusted: asyncio's FIFO ready queue (the marker runs iff the operation yielded); public statistics() of the primitives."
DESIGN_REF = "3/C08"


def budget(tier):
    return 12000 if tier == "quick" else 200000


# ------------------------------------------------------------------ cells
# Each cell: async def(pre, tg) -> (call, snapshot, cleanup, post_check)
#   call()        the operation under test (coroutine function)
#   snapshot()    comparable public state; must be equal before and after a cancelled call
#   cleanup(done) undo the effect (done=True if the call completed)
#   post_check(out, done) extra verdicts


async def _spin(n=3):
    for _ in range(n):
        await asyncio.sleep(0)


def _lock_like(factory, snap_fn, acquire=None, ctx=False):
    async def cell(pre, tg):
        obj = factory(pre)

        async def user():
            await obj.acquire()
            await asyncio.sleep(0)
            obj.release()

        for _ in range(pre.get("cycles", 0)):
            tg.start_soon(user)
        await _spin(4 * pre.get("cycles", 0) + 2)

        async def call():
            if ctx:
                async with obj:
                    pass
            else:
                await (acquire(obj) if acquire else obj.acquire())

        def cleanup(done):
            if done and not ctx:
                obj.release()

        return call, (lambda: snap_fn(obj)), cleanup, None

    return cell


def _lock_snap(lk):
    st = lk.statistics()
    return (lk.locked(), st.tasks_waiting)


def _sem_snap(s):
    return (s.value, s.statistics().tasks_waiting)


def _lim_snap(lim):
    st = lim.statistics()
    return (lim.borrowed_tokens, lim.available_tokens, st.tasks_waiting, len(st.borrowers))


async def cell_limiter(pre, tg, obo=False):
    total = pre.get("total", 1)
    others = min(pre.get("others", 0), total - 1) if total != math.inf else pre.get("others", 0)
    lim = CapacityLimiter(total)
    toks = [object() for _ in range(others)]
    for t in toks:
        lim.acquire_on_behalf_of_nowait(t)
    me = object()

    async def call():
        if obo:
            await lim.acquire_on_behalf_of(me)
        else:
            await lim.acquire()

    def cleanup(done):
        if done:
            if obo:
                lim.release_on_behalf_of(me)
            else:
                lim.release()
        for t in toks:
            lim.release_on_behalf_of(t)

    return call, (lambda: _lim_snap(lim)), cleanup, None


async def cell_event(pre, tg):
    ev = Event()

    async def waiter():
        await ev.wait()

    for _ in range(pre.get("waiters", 0)):
        tg.start_soon(waiter)
    await _spin(2)
    ev.set()
    await _spin(3 + pre.get("after", 0))   # earlier waiters are gone: only the call's own effect is judged
    return ev.wait, (lambda: (ev.is_set(), ev.statistics().tasks_waiting)), (lambda d: None), None


async def cell_cond_wait(pre, tg):
    cond = Condition()
    await cond.acquire()

    def post(out, done):
        if done:
            out.bad("cond-wait-returned-without-notify", "", "")
        if not cond.locked():
            out.bad("effect-despite-cancel", "cond_wait:lock-lost", "Condition.wait in a cancelled scope lost the lock")
        if cond.statistics().tasks_waiting != 0:
            out.bad("effect-despite-cancel", "cond_wait:ghost-waiter", "a waiter stayed queued")
        try:
            cond.release()
        except RuntimeError as e:
            out.bad("effect-despite-cancel", "cond_wait:not-owner", repr(e))

    return cond.wait, (lambda: (cond.locked(), cond.statistics().tasks_waiting)), (lambda d: None), post


async def cell_mem_send(pre, tg, waiting_receiver=False):
    size = 0 if waiting_receiver else pre.get("size", 1)
    send, recv = create_memory_object_stream(size)
    got = []

    async def receiver():
        got.append(await recv.receive())

    if waiting_receiver:
        tg.start_soon(receiver)
        await _spin(3)
    else:
        fill = pre.get("fill", 0)
        if size != math.inf:
            fill = min(fill, size - 1)
        for i in range(fill):
            send.send_nowait(("pre", i))

    def snap():
        st = send.statistics()
        return (st.current_buffer_used, st.tasks_waiting_send, st.tasks_waiting_receive, tuple(got))

    async def call():
        await send.send("X")

    def cleanup(done):
        if waiting_receiver and not done:
            send.send_nowait("cleanup")
        send.close()
        recv.close()

    def post(out, done):
        if not done:
            if "X" in got:
                out.bad("effect-despite-cancel", "mem_send:item-delivered", "")
            try:
                while True:
                    if recv.receive_nowait() == "X":
                        out.bad("effect-despite-cancel", "mem_send:item-buffered", "")
            except (anyio.WouldBlock, anyio.EndOfStream):
                pass

    return call, snap, cleanup, post


async def cell_mem_recv(pre, tg, waiting_sender=False):
    size = 0 if waiting_sender else pre.get("size", 2)
    send, recv = create_memory_object_stream(size)
    state = {"sent": False}

    async def sender():
        try:
            await send.send("S0")
        except anyio.BrokenResourceError:
            return
        state["sent"] = True

    if waiting_sender:
        tg.start_soon(sender)
        await _spin(3)
    else:
        n = pre.get("fill", 1)
        if size != math.inf:
            n = max(1, min(n, size))
        for i in range(max(1, n)):
            send.send_nowait(("pre", i))

    def snap():
        st = recv.statistics()
        return (st.current_buffer_used, st.tasks_waiting_send, st.tasks_waiting_receive, state["sent"])

    res = []

    async def call():
        res.append(await recv.receive())

    def post(out, done):
        if not done:
            # the head item must still be there
            try:
                head = recv.receive_nowait()
            except anyio.WouldBlock:
                out.bad("effect-despite-cancel", "mem_recv:item-consumed", "")
            else:
                if head != ("S0" if waiting_sender else ("pre", 0)):
                    out.bad("effect-despite-cancel", "mem_recv:head-changed", repr(head))
        else:
            if res[-1] != ("S0" if waiting_sender else ("pre", 0)):
                out.bad("wrong-result", "mem_recv", repr(res))

    def cleanup(done):
        send.close()
        recv.close()

    return call, snap, cleanup, post


async def cell_handle(pre, tg, use_await=False):
    async def child():
        await _spin(pre.get("work", 0))
        return 41

    async with create_task_group() as g2:
        h = g2.create_task(child())
    got = []

    async def call():
        if use_await:
            got.append(await h)
        else:
            await h.wait()

    def post(out, done):
        if done and use_await and got != [41]:
            out.bad("wrong-result", "handle", repr(got))

    return call, (lambda: h.status.name), (lambda d: None), post


async def cell_future(pre, tg, use_await=False):
    fut = anyio.Future()
    fut.return_value = 7
    got = []

    async def call():
        if use_await:
            got.append(await fut)
        else:
            await fut.wait()

    def post(out, done):
        if done and use_await and got != [7]:
            out.bad("wrong-result", "future", repr(got))

    return call, (lambda: fut.status.name), (lambda d: None), post


async def cell_to_thread(pre, tg):
    entered = []
    lim = CapacityLimiter(pre.get("total", 1))

    def fn():
        entered.append(1)
        return 5

    got = []

    async def call():
        got.append(await to_thread.run_sync(fn, limiter=lim, abandon_on_cancel=pre.get("abandon", False)))

    def post(out, done):
        if done and got != [5]:
            out.bad("wrong-result", "to_thread", repr(got))
        if not done and entered:
            out.bad("effect-despite-cancel", "to_thread:function-started", "")

    return call, (lambda: (lim.borrowed_tokens, len(entered))), (lambda d: None), post


class EmptyAsync:
    def __aiter__(self):
        return self

    async def __anext__(self):
        raise StopAsyncIteration


async def _f2(a, b):
    return a + b


async def _pred(x):
    return x > 0


async def _key(x):
    return x % 2


class PlainAsync:
    """Asynchronous source that never checkpoints itself."""

    def __init__(self, items):
        self.items = list(items)

    def __aiter__(self):
        return self

    async def __anext__(self):
        if not self.items:
            raise StopAsyncIteration
        return self.items.pop(0)


SHAPES = {"empty": [], "single": [1], "long": [1, 2, 0, 3], "aempty": None,
          "asingle": [1], "along": [1, 2, 3], "azeros": [0, 0]}
ASYNC_SHAPES = {"aempty", "asingle", "along", "azeros"}


def _src(shape):
    if shape == "aempty":
        return EmptyAsync()
    if shape in ASYNC_SHAPES:
        return PlainAsync(SHAPES[shape])
    return list(SHAPES[shape])


IT = {
    "accumulate": lambda s: ait.accumulate(_src(s), _f2),
    "accumulate_initial": lambda s: ait.accumulate(_src(s), initial=5),
    "batched": lambda s: ait.batched(_src(s), 2),
    "chain": lambda s: ait.chain(_src(s), _src(s)),
    "chain_from_iterable": lambda s: ait.chain.from_iterable([_src(s), _src(s)]),
    "combinations": lambda s: ait.combinations(_src(s), 1),
    "combinations_with_replacement": lambda s: ait.combinations_with_replacement(_src(s), 1),
    "compress": lambda s: ait.compress(_src(s), [1, 0, 1, 1]),
    "compress_none": lambda s: ait.compress(_src(s), [0, 0, 0, 0]),
    "islice_beyond": lambda s: ait.islice(_src(s), 7, None),
    "combinations_r9": lambda s: ait.combinations(_src(s), 9),
    "cycle": lambda s: ait.cycle(_src(s)),
    "dropwhile": lambda s: ait.dropwhile(_pred, _src(s)),
    "filterfalse": lambda s: ait.filterfalse(_pred, _src(s)),
    "groupby": lambda s: ait.groupby(_src(s), _key),
    "islice": lambda s: ait.islice(_src(s), 1, None, 2),
    "islice_zero": lambda s: ait.islice(_src(s), 0),
    "pairwise": lambda s: ait.pairwise(_src(s)),
    "permutations": lambda s: ait.permutations(_src(s), 1),
    "product": lambda s: ait.product(_src(s), repeat=1),
    "starmap": lambda s: ait.starmap(_f2, [(x, 1) for x in SHAPES[s]] if s not in ASYNC_SHAPES else
                                     (EmptyAsync() if s == "aempty" else PlainAsync([(x, 1) for x in SHAPES[s]]))),
    "takewhile": lambda s: ait.takewhile(_pred, _src(s)),
    "zip_longest": lambda s: ait.zip_longest(_src(s), _src(s)),
    "tee0": lambda s: ait.tee(_src(s), 2)[0],
    "tee1": lambda s: ait.tee(_src(s), 2)[1],
}
IT_NOSRC = {
    "count": lambda: ait.count(3, 2),
    "repeat_none": lambda: ait.repeat(1),
    "repeat_3": lambda: ait.repeat(1, 3),
    "repeat_0": lambda: ait.repeat(1, 0),
    "zip_longest_noargs": lambda: ait.zip_longest(),
    "chain_noargs": lambda: ait.chain(),
    "product_noargs": lambda: ait.product(),
}
INFINITE = {"count", "repeat_none", "cycle"}


def _it_cell(make, infinite, async_source=False):
    async def cell(pre, tg):
        info = {"n": 0}

        async def call():
            it = make().__aiter__()
            n = 0
            try:
                while True:
                    try:
                        await it.__anext__()
                    except StopAsyncIteration:
                        break
                    n += 1
                    info["n"] = n
                    if infinite and n >= pre.get("take", 3):
                        break
            finally:
                if hasattr(it, "aclose"):
                    with CancelScope(shield=True):
                        await it.aclose()

        # demanded: synchronous source, or a traversal that yielded nothing
        call.demand = lambda: (not async_source) or info["n"] == 0
        return call, (lambda: None), (lambda d: None), None

    return cell


def _tee_replay_cell(shape, advance):
    """Traverse one tee branch over values another branch has already pulled into the shared buffer."""
    async def cell(pre, tg):
        a, b = ait.tee(_src(shape), 2)
        k = 0
        async for _ in a:          # done before the marker / the cancelled scope: not part of the judged call
            k += 1
            if advance == "one":
                break
        info = {"n": 0}

        async def call():
            async for _ in b:
                info["n"] += 1

        call.demand = lambda: (shape not in ASYNC_SHAPES) or info["n"] == 0
        return call, (lambda: None), (lambda d: None), None

    return cell


def _tee_clone_cell(shape, fresh):
    """Traverse a clone made with tee() from a tee branch that has already been run to its end (fresh=False), or from
    one that has not been advanced at all (fresh=True): nothing (more) is yielded, a checkpoint is still due."""
    async def cell(pre, tg):
        a, b = ait.tee(_src(shape), 2)
        if not fresh:
            async for _ in a:
                pass
        (c,) = ait.tee(a, 1)
        info = {"n": 0}

        async def call():
            async for _ in c:
                info["n"] += 1

        call.demand = lambda: (shape not in ASYNC_SHAPES) or info["n"] == 0
        return call, (lambda: None), (lambda d: None), None

    return cell


def _reduce_cell(kind):
    async def cell(pre, tg):
        got = []

        async def call():
            if kind == "empty_initial":
                got.append(await anyio.functools.reduce(_f2, [], 9))
            elif kind == "single":
                got.append(await anyio.functools.reduce(_f2, [4]))
            elif kind == "aempty_initial":
                got.append(await anyio.functools.reduce(_f2, EmptyAsync(), 9))

        def post(out, done):
            want = {"empty_initial": 9, "single": 4, "aempty_initial": 9}[kind]
            if done and got != [want]:
                out.bad("wrong-result", "reduce", repr(got))

        return call, (lambda: None), (lambda d: None), post

    return cell


def _simple(fn):
    async def cell(pre, tg):
        return fn(pre), (lambda: None), (lambda d: None), None

    return cell


CELLS = {
    "sleep0": _simple(lambda pre: (lambda: anyio.sleep(0))),
    "sleep_negative": _simple(lambda pre: (lambda: anyio.sleep(-1))),
    "sleep_until_past": _simple(lambda pre: (lambda: anyio.sleep_until(anyio.current_time() - 1))),
    "checkpoint": _simple(lambda pre: lowlevel.checkpoint),
    "event_wait_set": cell_event,
    "lock_acquire": _lock_like(lambda pre: Lock(), _lock_snap),
    "lock_async_with": _lock_like(lambda pre: Lock(), _lock_snap, ctx=True),
    "semaphore_acquire": _lock_like(lambda pre: Semaphore(pre.get("value", 1)), _sem_snap),
    "semaphore_async_with": _lock_like(lambda pre: Semaphore(pre.get("value", 1)), _sem_snap, ctx=True),
    "condition_acquire": _lock_like(lambda pre: Condition(), lambda c: (c.locked(), c.statistics().tasks_waiting)),
    "limiter_acquire": cell_limiter,
    "limiter_acquire_on_behalf_of": lambda pre, tg: cell_limiter(pre, tg, obo=True),
    "memory_send_room": cell_mem_send,
    "memory_send_waiting_receiver": lambda pre, tg: cell_mem_send(pre, tg, waiting_receiver=True),
    "memory_receive_items": cell_mem_recv,
    "memory_receive_waiting_sender": lambda pre, tg: cell_mem_recv(pre, tg, waiting_sender=True),
    "taskhandle_wait": cell_handle,
    "taskhandle_await": lambda pre, tg: cell_handle(pre, tg, use_await=True),
    "future_wait": cell_future,
    "future_await": lambda pre, tg: cell_future(pre, tg, use_await=True),
    "reduce_empty_initial": _reduce_cell("empty_initial"),
    "reduce_single": _reduce_cell("single"),
    "reduce_asyncempty_initial": _reduce_cell("aempty_initial"),
}
CANCELLED_ONLY = {"condition_wait": cell_cond_wait}
THREAD_CELLS = {"to_thread_run_sync": cell_to_thread}
for _name, _mk in IT.items():
    for _shape in SHAPES:
        CELLS[f"it_{_name}:{_shape}"] = _it_cell((lambda m=_mk, s=_shape: m(s)),
                                                 _name in INFINITE and _shape not in ("empty", "aempty"),
                                                 _shape in ASYNC_SHAPES)
for _shape in SHAPES:
    for _adv in ("all", "one"):
        CELLS[f"it_tee_replay_{_adv}:{_shape}"] = _tee_replay_cell(_shape, _adv)
for _shape in SHAPES:
    CELLS[f"it_tee_clone_exhausted:{_shape}"] = _tee_clone_cell(_shape, False)
    CELLS[f"it_tee_clone_fresh:{_shape}"] = _tee_clone_cell(_shape, True)
for _name, _mk in IT_NOSRC.items():
    CELLS[f"it_{_name}"] = _it_cell(_mk, _name in INFINITE)

ALL_CELLS = {**CELLS, **CANCELLED_ONLY, **THREAD_CELLS}


# ------------------------------------------------------------------ driver


def _real_run(config, main):
    if config == "U":
        import uvloop
        factory = uvloop.new_event_loop
    elif config == "E":
        def factory():
            loop = asyncio.SelectorEventLoop()
            loop.set_task_factory(asyncio.eager_task_factory)
            return loop
    else:
        factory = asyncio.SelectorEventLoop

    async def m():
        # real loop (worker threads): a busy-spinning operation is cut off by an iteration budget, not by the clock
        loop = asyncio.get_running_loop()
        task = asyncio.current_task()
        state = {"n": 0, "stop": False}

        def tick():
            state["n"] += 1
            if state["stop"]:
                return
            if state["n"] > 300000:
                state["spun"] = True
                task.cancel()
                return
            loop.call_soon(tick)

        loop.call_soon(tick)
        try:
            return await main(loop)
        except asyncio.CancelledError:
            if state.get("spun"):
                raise BudgetExceeded("more than 300000 loop iterations") from None
            raise
        finally:
            state["stop"] = True

    return anyio.run(m, backend_options={"loop_factory": factory})


def run_case(case) -> Outcome:
    out = Outcome()
    name, cancelled, config, pre = case["cell"], case["cancelled"], case["config"], case.get("pre", {})
    cellfn = ALL_CELLS[name]
    cancelled_exc = asyncio.CancelledError
    how = pre.get("how", "own")

    async def main(loop):
        async with create_task_group() as tg:
            call, snap, cleanup, post = await cellfn(pre, tg)
            before = snap()
            done = False
            if cancelled and how == "native-during-yield":
                # no scope is cancelled: the task is cancelled natively (Task.cancel()) from a loop callback while the
                # call is suspended in its (possibly shielded) checkpoint. Either the call completes (the effect is
                # there) or it raises the cancellation having undone everything - never a different error
                task = asyncio.current_task()
                loop.call_soon(task.cancel)
                try:
                    await call()
                    done = True
                except cancelled_exc:
                    task.uncancel()
                    after = snap()
                    if after != before:
                        out.bad("effect-despite-cancel", name + ":native", f"{case}: state {before} -> {after}")
                else:
                    try:
                        await asyncio.sleep(0)      # the pending native request lands here
                    except cancelled_exc:
                        task.uncancel()
            elif cancelled and how == "above-group":
                # the call runs in a child task; the cancelled scope lies above the child's task group, whose own
                # scope is not cancelled and whose host waits behind a shield
                raised = False
                res = {}
                fin = anyio.Event()

                async def child():
                    try:
                        for _ in range(pre.get("delivered", 0)):
                            try:
                                await asyncio.sleep(0)
                            except cancelled_exc:
                                pass
                        loop.call_soon(lambda: res.__setitem__("mid", snap()))
                        await call()
                        res["done"] = True
                    except cancelled_exc:
                        res["raised"] = True
                        raise
                    finally:
                        fin.set()

                outer = CancelScope()
                with outer:
                    async with create_task_group() as tg2:
                        outer.cancel()
                        tg2.start_soon(child)
                        with CancelScope(shield=True):
                            await fin.wait()
                done = bool(res.get("done"))
                raised = bool(res.get("raised"))
                if not raised and getattr(call, "demand", lambda: True)():
                    out.bad("no-cancellation-check", name, f"{case}: completed normally in a child task although a "
                                                           f"scope above its task group is cancelled")
                after = snap()
                if not done and after != before:
                    out.bad("effect-despite-cancel", name, f"{case}: state {before} -> {after}")
                if "mid" in res and res["mid"] != before:
                    out.bad("effect-visible-during-cancelled-call", name, f"{case}: state {before} -> {res['mid']} "
                                                                          f"while the doomed call was suspended")
            elif cancelled:
                raised = False
                outer = CancelScope()
                mid = []
                with outer:
                    if how == "deadline":
                        inner = CancelScope(deadline=anyio.current_time() - 1)
                    elif how == "own-shielded":
                        inner = CancelScope(shield=True)      # a shield that has itself been cancelled
                    else:
                        inner = CancelScope()
                    with inner:
                        if how in ("own", "own-shielded"):
                            inner.cancel()
                        elif how == "parent":
                            outer.cancel()
                        elif how == "before-entry":
                            pass
                        elif how == "during-shielded-checkpoint":
                            # the enclosing scope is cancelled from a loop callback while this task sits in the
                            # shielded checkpoint of an earlier, uncontended operation of the kind that ends with one
                            loop.call_soon(outer.cancel)
                            prior = anyio.Lock() if pre.get("prior", 0) == 0 else anyio.Semaphore(1)
                            await prior.acquire()
                            prior.release()
                        # k cancellations already delivered and caught by the caller
                        for _ in range(pre.get("delivered", 0)):
                            try:
                                await asyncio.sleep(0)
                            except cancelled_exc:
                                pass
                        loop.call_soon(lambda: mid.append(snap()))
                        try:
                            await call()
                            done = True
                        except cancelled_exc:
                            raised = True
                            raise
                if not raised and getattr(call, "demand", lambda: True)():
                    out.bad("no-cancellation-check", name, f"{case}: completed normally in a cancelled scope")
                if mid and mid[0] != before:
                    # observed from a loop callback while the doomed call was suspended in its checkpoint
                    out.bad("effect-visible-during-cancelled-call", name, f"{case}: state {before} -> {mid[0]} "
                                                                          f"while the doomed call was suspended")
                after = snap()
                if not done and after != before:
                    out.bad("effect-despite-cancel", name, f"{case}: state {before} -> {after}")
            else:
                ran = [False]
                loop.call_soon(ran.__setitem__, 0, True)
                await call()
                done = True
                if not ran[0] and getattr(call, "demand", lambda: True)():
                    out.bad("no-yield", name, f"{case}: returned without yielding to the event loop")
            if post is not None:
                post(out, done)
            cleanup(done)
            tg.cancel_scope.cancel()

    try:
        if name in THREAD_CELLS:
            _real_run(config, main)
        else:
            run_on(config, main, budget=3000)
    except Deadlock as e:
        out.bad("hang", name, f"{case}: {e!r}")
    except BudgetExceeded as e:
        out.bad("hang", name + ":busy", f"{case}: {e!r}")
    out.nontrivial = True
    out.labels.append("cancelled" if cancelled else "not-cancelled")
    out.labels.append("config-" + config)
    out.labels.append("cell:" + name.split(":")[0].split("_")[0])
    return out


def enumerate_cases(tier):
    for config in ("S", "E", "U"):
        for name in ALL_CELLS:
            for cancelled in (False, True):
                if name in CANCELLED_ONLY and not cancelled:
                    continue
                yield {"cell": name, "cancelled": cancelled, "config": config, "pre": {}}
                if cancelled:
                    yield {"cell": name, "cancelled": True, "config": config, "pre": {"how": "above-group"}}
                    yield {"cell": name, "cancelled": True, "config": config, "pre": {"how": "during-shielded-checkpoint"}}
                    yield {"cell": name, "cancelled": True, "config": config, "pre": {"how": "own-shielded"}}
                    yield {"cell": name, "cancelled": True, "config": config, "pre": {"how": "native-during-yield"}}


NAMES = sorted(ALL_CELLS)
PRIMS = sorted(n for n in ALL_CELLS if not n.startswith("it_"))


def _gen(g):
    name = g.choice(PRIMS) if g.chance(70) else g.choice(NAMES)
    cancelled = True if name in CANCELLED_ONLY else g.bool()
    pre = {"cycles": g.int(0, 3), "value": g.int(1, 3), "total": g.choice([1, 2, 3, math.inf]), "others": g.int(0, 2),
           "waiters": g.int(0, 3), "after": g.int(0, 2), "size": g.choice([1, 2, 3, math.inf]), "fill": g.int(0, 3),
           "work": g.int(0, 2), "take": g.int(1, 4), "abandon": g.bool()}
    if cancelled:
        pre["how"] = g.choice(["own", "parent", "deadline", "above-group", "during-shielded-checkpoint", "own-shielded", "native-during-yield"])
        pre["prior"] = g.int(0, 1)
        pre["delivered"] = g.int(0, 3)
    return {"cell": name, "cancelled": cancelled, "config": g.choice(["S", "E", "U"]), "pre": pre}


_strategy = composite(_gen)


def strategy(tier):
    return _strategy()
