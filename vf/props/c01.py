"""C01 Task group join: no child outlives its task group block (engine: vf/interp.py, generator: vf/progen.py)."""
import os

from ..gen import composite
from ..interp import run_program
from ..progen import gen_program, profile

ID = "C01"
PREFIX = ('c01:', 'c03:hang')
PROFILE = profile(group=16, spawn=20, start=6, catch=10, cancel=14, scope=8, forever=5, wait=6, ext=3, max_stmts=60, patterns={'late_spawn': 2, 'shielded_group_failure': 1, 'cleanup_failure_under_outer_cancel': 1, 'native_cancel_at_last_child_done': 2, 'outsider_start': 2, 'native_at_group_join': 1, '_chance': 30})
RULE = ('Hypothesis-generated task trees (nested groups, children spawning children into their own or enclosing groups also after cancellation, start(), children that block, return, raise or catch cancellation with shielded cleanup; cancels from inside, siblings and external callbacks); non-trivial = a group with >= 2 children of which at least one was still running when the body ended; distinct = distinct canonical JSON')
ASSUMPTIONS = ["reference semantics (mirror) evaluated on public attributes cancel_called/shield of every scope on the chain; the only private access is fetching a child's handle scope object at its first step", 'every indefinite wait sits in a harness guard scope cancelled after 40 cycles', "asyncio's FIFO ready queue is not permuted; schedules vary through generated delays, cancel placement, external loop callbacks and loop configuration"]
TECHNIQUE = 'Hypothesis-generated task-tree programs; history invariants (ended-before-exit, no step after exit, handle status/value agreement)'
LEVEL_TEXT = ('History invariants on every generated program: every child ever spawned in a group has ended before the async-with returns or raises, executes no statement afterwards (the loop is drained for extra cycles), and each TaskHandle reports a final status and the value/exception its coroutine really ended with. Exploration on stock, eager and uvloop.')
LEVEL_NOTE = 'Trusted: the harness wrapper around each child coroutine (records how it ended) and the step log.'
DESIGN_REF = "3/C01"


def budget(tier):
    return 24000 if tier == "quick" else 500000


_strategy = composite(lambda g: gen_program(g, PROFILE))


def strategy(tier):
    return _strategy()


def run_case(case):
    out, stats, w, err = run_program(case)
    if not os.environ.get("VF_ALL_RULES"):
        out.viols = [v for v in out.viols if v.rule.startswith(PREFIX) or v.rule in ("unexpected-exception", "hang")]
    out.nontrivial = bool(stats["group_waited_for_children"] > 0)
    out.labels = [k for k, v in stats.items() if v] + ["config-" + case["config"]]
    if case.get("pat"):
        out.labels.append("pattern-" + case["pat"])
    return out
