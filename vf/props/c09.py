"""C09 Lock: mutual exclusion, FIFO hand-off, cancel-safe waiters.

Case = {"config": S|E|U, "fast": bool, "actors": [[step...], ...]}
step = ["acq", d] | ["nw", d] | ["rel", d] | ["cancel", d, target, native]
     | ["relc", d, offset(-1|0|1), which(0=head,1=second,2=last), native]   release with a cancel placed around it
     | ["relc", d, offset, which, native, which2, native2]                  ... and a second waiter cancelled with it
"""
from __future__ import annotations

import asyncio

import anyio
from anyio import Lock, WouldBlock

from ..actors import run_sim
from ..gen import composite
from ..runner import Outcome

ID = "C09"
RULE = ("Hypothesis-generated scripts for 2-5 actors (acquire / acquire_nowait / release / cancel of another actor's "
        "pending acquire, by scope or natively, with cancels placed at offsets -1/0/+1 cycles around releases); "
        "non-trivial = a waiter cancelled while queued behind a holder, or a release with >= 2 queued waiters; "
        "distinct = distinct canonical JSON")
ASSUMPTIONS = [
    "asyncio's FIFO ready queue is not permuted; schedules vary through generated cycle delays and cancel placement",
    "an acquire whose cancellation was requested may either raise or (if ownership was already transferred) return",
    "actors always release what they hold at the end of their script",
]
TECHNIQUE = "Hypothesis-generated actor programs on a cycle-counting loop, queue-lock reference model driven by observed call/return intervals"
LEVEL_TEXT = ("Generated programs judged by a reference queue lock: mutual exclusion (exact), FIFO/no-overtaking and "
              "no-barging (interval form with cancel guards), error returns, free-with-live-waiter monitor, quiescent "
              "end state. Exploration over programs x cancel timings on stock, eager and uvloop loops.")
LEVEL_NOTE = "Trusted: the harness' own bookkeeping of who is between acquire-return and release; asyncio FIFO scheduling."
DESIGN_REF = "3/C09"


def budget(tier):
    return 20000 if tier == "quick" else 400000


def _gen(g):
    if g.chance(8):
        # targeted shape: the very first acquire() of a lock, cancelled (by a scope or natively) in the cycles around
        # its checkpoint; then the lock is used normally. With "adapter" the lock was created outside the loop and
        # binds to the backend in that first call
        d = g.int(0, 2)
        tail = [[g.choice(["acq", "rel", "nw"]), g.int(0, 2)] for _ in range(g.int(1, 4))]
        return {"config": g.choice(["S", "S", "E", "U"]), "fast": g.chance(25),
                "actors": [[["acq", d], ["rel", g.int(1, 3)]] + tail,
                           [["cancel", d + g.choice([0, 0, 1]), 0, g.chance(30)], ["acq", g.int(1, 3)], ["rel", g.int(1, 2)]],
                           [["acq", d + g.int(1, 4)], ["rel", 1]]],
                "nest": g.choice([0, 0, 1]), "adapter": g.chance(70)}
    n = g.int(2, 5)
    actors = []
    for _a in range(n):
        script = []
        for _ in range(g.int(2, 8)):
            k = g.weighted([(30, "acq"), (6, "nw"), (26, "rel"), (14, "cancel"), (24, "relc")])
            d = g.int(0, 3)
            if k in ("acq", "nw", "rel"):
                script.append([k, d])
            elif k == "cancel":
                script.append([k, d, g.int(0, n - 1), g.chance(15)])
            else:
                script.append([k, d, g.choice([-1, 0, 0, 1]), g.choice([0, 0, 1, 2]), g.chance(25)])
                if g.chance(30):
                    script[-1] += [g.choice([0, 1, 2]), g.chance(25)]      # a second waiter cancelled at the same point
        actors.append(script)
    return {"config": g.choice(["S", "S", "E", "U"]), "fast": g.chance(25), "actors": actors,
            "nest": g.choice([0, 0, 1, 2]), "adapter": g.chance(20), "residue": g.chance(12)}


_strategy = composite(_gen)


def strategy(tier):
    return _strategy()


def run_case(case) -> Outcome:
    out = Outcome()
    stats = {"cancel_queued": 0, "release_2plus": 0, "handoff_cancel": 0, "handoff_cancel_2": 0, "native": 0}

    # a lock created outside any event loop is an adapter that binds to the backend on first use
    prebuilt = Lock(fast_acquire=case["fast"]) if case.get("adapter") else None

    async def body(sim):
        sim.nest = case.get("nest", 0)
        sim.residue = bool(case.get("residue"))
        lock = prebuilt if prebuilt is not None else Lock(fast_acquire=case["fast"])
        holder = [None]
        waiting = {}          # aid -> [seq, call_cycle]  acquire called, not yet returned/raised
        seq = [0]

        def live_waiters(exclude=None):
            return [a for a in sorted(waiting, key=lambda a: waiting[a][0])
                    if a != exclude and not sim.cancel_requested(a)]

        def do_cancel(target, native):
            if target in waiting and not sim.cancel_requested(target):
                if holder[0] is not None and holder[0] != target:
                    stats["cancel_queued"] += 1
            if native:
                if sim.native_cancel(target):
                    stats["native"] += 1
            else:
                sim.cancel(target)

        def do_release(aid):
            nlive = len(live_waiters())
            try:
                if holder[0] == aid:
                    st = lock.statistics()
                    if not st.locked or st.owner is None or st.owner.id != id(sim.tasks[aid]):
                        out.bad("statistics-owner", "", f"holder {aid} but statistics {st}")
                lock.release()
            except RuntimeError:
                if holder[0] == aid:
                    out.bad("owner-release-refused", "", f"actor {aid}")
                return False
            if holder[0] != aid:
                out.bad("release-by-non-owner-accepted", "", f"actor {aid} holder {holder[0]}")
            else:
                holder[0] = None
                if nlive >= 2:
                    stats["release_2plus"] += 1
            return True

        async def actor(aid):
            task = asyncio.current_task()
            for step in case["actors"][aid]:
                if sim.draining:
                    break
                try:
                    await do_step(aid, task, step)
                except asyncio.CancelledError:
                    # a native cancel that landed after the targeted operation had ended
                    task.uncancel()
                    sim.native_req.discard(aid)
            if holder[0] == aid:
                do_release(aid)

        async def do_step(aid, task, step):
            if True:
                await sim.delay(step[1])
                k = step[0]
                sim.progress += 1
                if k == "acq":
                    if holder[0] == aid:
                        try:
                            await lock.acquire()
                            out.bad("owner-reacquire-accepted", "", f"actor {aid}")
                        except RuntimeError:
                            pass
                        return
                    seq[0] += 1
                    me = waiting[aid] = [seq[0], sim.now()]
                    got = False
                    try:
                        with sim.op(aid) as sc:
                            try:
                                await lock.acquire()
                                got = True
                            finally:
                                waiting.pop(aid, None)
                    except asyncio.CancelledError:
                        # native cancellation travelling through: absorbed here by the harness
                        task.uncancel()
                        sim.native_req.discard(aid)
                        if got:
                            out.bad("harness", "native-after-acquire", "")
                    if not got:
                        return
                    if holder[0] is not None:
                        out.bad("mutual-exclusion", "acquire", f"{aid} acquired while {holder[0]} holds")
                    for other in live_waiters(exclude=aid):
                        if waiting[other][0] < me[0]:
                            out.bad("fifo-overtaken", "acquire",
                                    f"{aid} (seq {me[0]}) acquired at cycle {sim.now()} before live waiter {other} "
                                    f"(seq {waiting[other][0]})")
                    holder[0] = aid
                elif k == "nw":
                    try:
                        lock.acquire_nowait()
                    except WouldBlock:
                        if holder[0] is None and not waiting:
                            out.bad("nowait-wouldblock-on-free-lock", "", f"actor {aid}")
                    except RuntimeError:
                        if holder[0] != aid:
                            out.bad("nowait-runtimeerror-not-owner", "", f"actor {aid}")
                    else:
                        if holder[0] is not None:
                            out.bad("mutual-exclusion", "acquire_nowait", f"{aid} acquired while {holder[0]} holds")
                        lw = live_waiters()
                        if lw:
                            out.bad("barging", "acquire_nowait", f"{aid} took the lock past live waiters {lw}")
                        holder[0] = aid
                elif k == "rel":
                    do_release(aid)
                elif k == "cancel":
                    do_cancel(step[2], step[3])
                elif k == "relc":
                    if holder[0] != aid:
                        return
                    lw = live_waiters()
                    target = None
                    if lw:
                        target = lw[min(step[3], len(lw) - 1)] if step[3] < 2 else lw[-1]
                    off, native = step[2], step[4]
                    if target is not None:
                        stats["handoff_cancel"] += 1
                    target2 = None
                    if len(step) > 5 and len(lw) > 1:
                        target2 = lw[min(step[5], len(lw) - 1)] if step[5] < 2 else lw[-1]
                        if target2 == target:
                            target2 = None
                        else:
                            stats["handoff_cancel_2"] += 1

                    def cancel_both(t, nat, _t2=target2, _n2=len(step) > 6 and bool(step[6])):
                        do_cancel(t, nat)
                        if _t2 is not None:
                            do_cancel(_t2, _n2)
                    if off == -1:
                        if target is not None:
                            cancel_both(target, native)
                        await asyncio.sleep(0)
                        do_release(aid)
                    elif off == 0:
                        do_release(aid)
                        if target is not None:
                            cancel_both(target, native)
                    else:
                        do_release(aid)
                        await asyncio.sleep(0)
                        if target is not None:
                            cancel_both(target, native)

        free_cycles = [0]

        def monitor(lp):
            if not lock.locked() and holder[0] is None and live_waiters():
                free_cycles[0] += 1
                if free_cycles[0] == 3:
                    out.bad("free-lock-with-live-waiters", "", f"waiters {live_waiters()} cycle {lp.cycle}")
            else:
                free_cycles[0] = 0

        sim.on_monitor = monitor

        def on_quiescent(rounds):
            # every holder releases eventually, so a blocked acquire at quiescence is a lost wake-up
            if waiting and holder[0] is None:
                out.bad("lost-wakeup", "", f"actors {sorted(waiting)} blocked on a lock nobody holds")

        res = await sim.run(len(case["actors"]), actor, on_quiescent=on_quiescent)
        sim.on_monitor = None
        for r in res:
            if isinstance(r, BaseException) and not isinstance(r, asyncio.CancelledError):
                raise r
        st = lock.statistics()
        if holder[0] is None and (st.locked or st.tasks_waiting):
            out.bad("end-state", "", f"{st}")
        if sim.gave_up:
            out.bad("hang", "actors-stuck", "actors did not finish after repeated cancellation")

    _res, err, sim = run_sim(case["config"], body)
    if err is not None:
        out.bad("hang", err[0], err[1])
    out.nontrivial = stats["cancel_queued"] > 0 or stats["release_2plus"] > 0
    for k, v in stats.items():
        if v:
            out.labels.append(k)
    out.labels.append("config-" + case["config"])
    if case["fast"]:
        out.labels.append("fast_acquire")
    return out
