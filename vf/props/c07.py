"""C07 TaskGroup.start(): readiness handshake is exact and loses nothing (engine: vf/interp.py, generator: vf/progen.py)."""
import os

from ..gen import composite
from ..interp import run_program
from ..progen import gen_program, profile

ID = "C07"
PREFIX = ('c07:', 'c02:leaf-mismatch')
PROFILE = profile(group=18, start=30, spawn=6, cancel=18, catch=8, scope=10, ext=3, native_ext=4, patterns={'native_cancel_of_start_caller': 2, 'outsider_start_enclosing_cancel': 2, 'shielded_start_caller_group_failure': 1, 'native_cancel_at_final_checkpoint': 1, 'native_cancel_after_prestart_failure': 1, '_chance': 24}, **{'yield': 18})
RULE = ("Hypothesis-generated programs around TaskGroup.start(): scripted children (k checkpoints, then started(v)/raise/return/block, optional second started(), further work then return/raise/block, cleanup on cancellation that re-raises, swallows or raises) with the caller's, the group's or an enclosing scope cancelled at generated cycles, sequential and concurrent starts; non-trivial = a start() whose caller was cancelled before started(), or a child failing after started(); distinct = distinct canonical JSON")
ASSUMPTIONS = ["reference semantics (mirror) evaluated on public attributes cancel_called/shield of every scope on the chain; the only private access is fetching a child's handle scope object at its first step", 'every indefinite wait sits in a harness guard scope cancelled after 40 cycles', "asyncio's FIFO ready queue is not permuted; schedules vary through generated delays, cancel placement, external loop callbacks and loop configuration"]
TECHNIQUE = "Hypothesis-generated handshake programs; protocol rules over the observed history (value identity, exception routing, child-ended-before-reraise, exactly-once with C02's leaf rule)"
LEVEL_TEXT = ('Protocol rules: start() returns exactly the started() value and only after it; a child ending before started() makes start() raise that very exception (RuntimeError if it returned) without cancelling the group; if the caller is cancelled the child has fully ended before start() re-raises and whatever it raised still surfaces exactly once (call site or group leaves); post-started failures go to the group. Exploration.')
LEVEL_NOTE = 'Trusted: harness record of started()/end of each child and of what each start() call did.'
DESIGN_REF = "3/C07"


def budget(tier):
    return 24000 if tier == "quick" else 500000


_strategy = composite(lambda g: gen_program(g, PROFILE))


def strategy(tier):
    return _strategy()


def run_case(case):
    out, stats, w, err = run_program(case)
    if not os.environ.get("VF_ALL_RULES"):
        out.viols = [v for v in out.viols if v.rule.startswith(PREFIX) or v.rule in ("unexpected-exception", "hang")]
    out.nontrivial = bool(stats["start_caller_cancelled"] > 0 or stats["start_child_fails_after_started"] > 0)
    out.labels = [k for k, v in stats.items() if v] + ["config-" + case["config"]]
    if case.get("pat"):
        out.labels.append("pattern-" + case["pat"])
    return out
