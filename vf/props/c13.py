"""C13 Memory object streams: closing wakes everyone and errors tell the truth (see vf/memstream.py)."""
from ..gen import composite
from ..memstream import MAXES, gen_case, run_stream_case

ID = "C13"
RULE = ("Hypothesis-generated actor scripts as for C12 plus clone()/close() of any clone of either side at any time "
        "(never of a handle with its own operation in flight); non-trivial = the last clone of a side closed while a "
        "peer is blocked, or a clone closed twice / cloned after siblings were closed; distinct = distinct canonical JSON")
ASSUMPTIONS = [
    "a handle is not closed while one of its own operations is in flight (generator soundness rule); peers are",
    "model = open/closed flag per clone; a fully closed side never reopens",
]
TECHNIQUE = "Hypothesis-generated actor programs with clone/close histories; counting model of open clones + error-truthfulness rules"
LEVEL_TEXT = ("ClosedResourceError exactly for operations on closed handles; BrokenResourceError only with the receive "
              "side fully closed; EndOfStream only with the send side fully closed and nothing buffered or parked; open "
              "counts in statistics() equal the model at every event; nobody stays blocked for 4 cycles on a fully "
              "closed peer side. Exploration.")
LEVEL_NOTE = "Trusted: harness model of open clones; public statistics()."
DESIGN_REF = "3/C13"


def budget(tier):
    return 20000 if tier == "quick" else 400000


def _gen(g):
    if g.chance(8):
        # targeted shape: two receivers parked, a send hands its item to the first one, which is cancelled natively
        # in the same cycle (the window of finding F8, whose lost item is C12's business), then the last send
        # handle is closed while the second receiver is still parked
        tail = [[g.choice(["recv", "recv_nw"]), g.int(1, 3), 0] for _ in range(g.int(0, 2))]
        return {"config": g.choice(["S", "S", "E", "U"]), "max": g.choice(MAXES), "ns": 1, "nr": g.int(1, 2),
                "keep_r": g.bool(), "nest": g.choice([0, 0, 1]), "allow_f8": True,
                "actors": [[["recv", 0, 0]] + tail, [["recv", 1, g.int(0, 1)]] + tail,
                           [["sendc", 3, 0, 0, True], g.choice([["close_s", g.int(0, 2), 0], ["send", g.int(0, 1), 0]]),
                            ["close_s", g.int(0, 2), 0]]]}
    if g.chance(6):
        # targeted shape: several receivers parked, the single send handle is closed and one of the receivers is
        # cancelled around that moment
        nrv = g.int(2, 4)
        return {"config": g.choice(["S", "S", "E", "U"]), "max": g.choice(MAXES), "ns": 1, "nr": g.int(1, 2),
                "keep_r": g.bool(), "nest": g.choice([0, 0, 1]), "allow_f8": False,
                "actors": [[["recv", i, g.int(0, 1)]] for i in range(nrv)]
                + [[["closec", nrv + 2, 0, g.choice([-1, 0, 0, 1]), g.int(0, 2), g.chance(40), g.bool()]]]}
    if g.chance(6):
        # targeted shape: one receive handle used by two tasks in turn; the first user is parked elsewhere and gets
        # cancelled in the cycle of a send that the second user (parked on that handle) should receive; then the last
        # send handle is closed
        return {"config": g.choice(["S", "S", "E", "U"]), "max": g.choice(MAXES), "ns": 1, "nr": 2, "keep_r": g.bool(),
                "nest": 0, "allow_f8": False,
                "actors": [[["recv", 0, 0], ["recv", 1, 1]],
                           [["recv", 4, 0], ["recv_nw", 2, 0]],
                           [["send", 1, 0], ["sendc", 5, 0, g.choice([-1, 0, 0]), g.chance(30)],
                            g.choice([["close_s", g.int(0, 2), 0], ["send", 1, 0]]), ["close_s", g.int(0, 2), 0]]]}
    case = gen_case(g, closing=True)
    # C13's rules do not look at whether every item arrives, so the F8 window need not be excluded here
    case["allow_f8"] = g.chance(50)
    return case


_strategy = composite(_gen)


def strategy(tier):
    return _strategy()


def run_case(case):
    out, stats = run_stream_case(case)
    out.viols = [v for v in out.viols if v.rule.startswith("c13:") or v.rule in ("hang", "unexpected-exception")]
    out.nontrivial = stats["last_close_with_blocked"] > 0 or stats["double_close"] > 0 or stats["clone_after_close"] > 0
    return out
