"""C13 Memory object streams: closing wakes everyone and errors tell the truth (see vf/memstream.py)."""
from ..gen import composite
from ..memstream import gen_case, run_stream_case

ID = "C13"
RULE = ("Hypothesis-generated actor scripts as for C12 plus clone()/close() of any clone of either side at any time "
        "(never of a handle with its own operation in flight); non-trivial = the last clone of a side closed while a "
        "peer is blocked, or a clone closed twice / cloned after siblings were closed; distinct = distinct canonical JSON")
ASSUMPTIONS = [
    "a handle is not closed while one of its own operations is in flight (generator soundness rule); peers are",
    "model = open/closed flag per clone; a fully closed side never reopens",
]
TECHNIQUE = "Hypothesis-generated actor programs with clone/close histories; counting model of open clones + error-truthfulness rules"
LEVEL_TEXT = ("ClosedResourceError exactly for operations on closed handles; BrokenResourceError only with the receive "
              "side fully closed; EndOfStream only with the send side fully closed and nothing buffered or parked; open "
              "counts in statistics() equal the model at every event; nobody stays blocked for 4 cycles on a fully "
              "closed peer side. Exploration.")
LEVEL_NOTE = "Trusted: harness model of open clones; public statistics()."
DESIGN_REF = "3/C13"


def budget(tier):
    return 20000 if tier == "quick" else 400000


_strategy = composite(lambda g: gen_case(g, closing=True))


def strategy(tier):
    return _strategy()


def run_case(case):
    out, stats = run_stream_case(case)
    out.viols = [v for v in out.viols if v.rule.startswith("c13:") or v.rule in ("hang", "unexpected-exception")]
    out.nontrivial = stats["last_close_with_blocked"] > 0 or stats["double_close"] > 0 or stats["clone_after_close"] > 0
    return out
