"""C14 to_thread.run_sync: faithful results, bounded threads, cancellation handled (real threads).

Case = {"config": "S"|"U", "total": 1..3, "default": bool, "delays": [cycles...],
        "calls": [{"abandon": bool, "mode": "value"|"raise", "cb": None|"run_sync"|"run", "cc": bool}],
        "ctl": [["open", i] | ["cancel", i] | ["ncancel", i] | ["entered", i] | ["yield", k] | ["settle", 0]],
        "callers": [[call indexes issued one after the other by one task] ...],
        "after": {"i": j}  call i is issued only after call j < i entered its function}      (ncancel = Task.cancel() of the caller)
"""
from __future__ import annotations

import asyncio
import contextvars
import threading
import time

import anyio
from anyio import CancelScope, CapacityLimiter, create_task_group, from_thread, to_thread

from ..gen import composite
from ..loops import RLoop
from ..runner import Outcome

ID = "C14"
JOBS_PER_WORKER = 1
CASE_TIMEOUT_S = 200
RULE = ("Hypothesis-generated sessions of 1-6 concurrent to_thread.run_sync calls against a limiter of 1-3 tokens "
        "(explicit or the default limiter), abandon_on_cancel on/off, gated thread functions that return, raise, call "
        "back into the loop (from_thread.run / run_sync) or ask check_cancelled(); a controller script opens gates in "
        "any order and cancels callers at any stage (queued for the limiter, function running, after its gate opened), by "
        "cancel scope or natively (Task.cancel()); a caller task issues one or several calls in a row and survives "
        "their cancellation; calls may wait for an earlier call to have entered its function; "
        "generated call_soon_threadsafe latencies (stock loop, also with the eager task factory); callbacks that shield "
        "their work; thread functions that return exception objects; calls that cancel a queued call in the step in which "
        "they return; sub-cases with two event loops in one process and with an idle period longer than the workers' "
        "idle limit; "
        "non-trivial = more concurrent calls than tokens, or a "
        "caller cancelled while its function runs; distinct = distinct canonical JSON")
ASSUMPTIONS = [
    "thread interleavings inside anyio's worker-thread code finer than the harness' gates and injected "
    "call_soon_threadsafe latencies are reached only by chance",
    "progress is awaited by polling thread events every millisecond; the only time-based verdict is a 30 s watchdog, "
    "re-run twice: only a hang on every run is a violation",
    "per-thread FIFO of call_soon_threadsafe callbacks is preserved by the delaying loop",
    "the idle-expiry sub-case lowers the private constant WorkerThread.MAX_IDLE_TIME (10 s) to 0.15 s for its duration",
]
TECHNIQUE = "Hypothesis-generated controller scripts over real worker threads with gates and injected loop latencies; safety invariants (fidelity, token bound, cancellation protocol)"
LEVEL_TEXT = ("Safety invariants under controlled macro-schedules: result/exception identity and context propagation; the "
              "number of running, non-abandoned functions never exceeds total_tokens (lock-protected harness counter); "
              "borrowed_tokens is 0 at the end and never above the total; without abandon_on_cancel the call returns its "
              "result only after the function finished and the cancellation lands at the next checkpoint while "
              "check_cancelled() reports it in the thread; with it the caller is released at once and the function still "
              "finishes; calls cancelled while queued never start their function; at settle points calls in progress <= "
              "borrowed_tokens + tasks_waiting; a call holding a token starts its function within 1 s (3 runs). "
              "Exploration, not a schedule enumeration.")
LEVEL_NOTE = "Trusted: harness gates (threading.Event), lock-protected counters, the 30 s watchdog."
DESIGN_REF = "3/C14"

var = contextvars.ContextVar("vf_c14", default=None)
TRACE = bool(__import__("os").environ.get("VF_TRACE"))


class Boom(Exception):
    pass


def budget(tier):
    return 1600 if tier == "quick" else 30000


def _gen(g):
    if g.chance(3):
        return {"kind": "idle", "config": g.choice(["S", "U"]), "warm": g.int(0, 3), "idle": g.choice([0.0, 0.05, 0.3, 0.3]),
                "later": g.int(1, 3), "total": 1, "default": True, "delays": [], "calls": [], "ctl": []}
    if g.chance(4):
        return {"kind": "twoloops", "config": g.choice(["S", "U"]), "prior": g.int(0, 3), "overlap": g.chance(80),
                "total": 1, "default": True, "delays": [], "calls": [], "ctl": []}
    n = g.int(1, 6)
    calls = [{"abandon": g.chance(35), "mode": g.weighted([(65, "value"), (22, "raise"), (13, "retexc")]),
              "cb": g.weighted([(56, None), (18, "run_sync"), (18, "run"), (8, "run_shielded")]), "cc": g.chance(35),
              "nest": g.chance(40), "shielded": g.chance(30)} for _ in range(n)]
    if g.chance(12):
        # targeted shapes: a caller survives the cancellation of its first call and issues a second one while the
        # first function is still running in its thread (abandoned, or orphaned by a native Task.cancel())
        native = g.bool()
        calls = [dict(c, cb=None) for c in calls[:3]]
        while len(calls) < 3:
            calls.append({"abandon": False, "mode": "value", "cb": None, "cc": False, "nest": False, "shielded": False})
        calls[0]["abandon"] = not native
        calls[0]["shielded"] = False
        ctl = [["entered", 0], ["ncancel" if native else "cancel", 0], ["yield", g.int(1, 3)], ["entered", 1]]
        rest = [["open", 0], ["settle", 0], ["entered", 2], ["open", 1], ["open", 2]]
        if g.bool():
            rest[0], rest[3] = rest[3], rest[0]
        return {"config": g.choice(["S", "S", "U", "E"]), "total": g.choice([1, 1, 2]), "default": g.chance(25),
                "delays": [g.int(0, 3) for _ in range(g.int(0, 5))], "calls": calls, "ctl": ctl + rest,
                "callers": [[0, 1], [2]], "after": {"2": 1} if g.chance(70) else {}}
    if g.chance(6):
        base = {"abandon": False, "mode": "value", "cb": None, "cc": False, "nest": g.bool(), "shielded": False}
        cs = [dict(base, then_cancel=1), dict(base), dict(base)]
        return {"config": g.choice(["S", "S", "U", "E"]), "total": 1, "default": g.chance(25),
                "delays": [g.int(0, 3) for _ in range(g.int(0, 5))], "calls": cs,
                "ctl": [["entered", 0], ["yield", g.int(1, 3)], ["open", 0], ["settle", 0], ["entered", 2], ["open", 2],
                        ["open", 1]],
                "callers": [[0], [1], [2]], "after": {"1": 0, "2": 0}}
    if g.chance(8):
        # targeted shape: the thread function calls back into the loop with a coroutine that shields its work; the
        # caller is cancelled while that work is parked; (optionally) another call queues for the token meanwhile
        calls = [dict(c, cb=None) for c in calls[:2]]
        while len(calls) < 2:
            calls.append({"abandon": False, "mode": "value", "cb": None, "cc": False, "nest": False, "shielded": False})
        calls[0].update(cb="run_shielded", abandon=False, shielded=False, mode="value")
        ctl = [["entered", 0], ["open", 0], ["cbwait", 0], ["cancel", 0], ["yield", g.int(1, 3)], ["settle", 0],
               ["entered", 1], ["cbopen", 0], ["open", 1]]
        return {"config": g.choice(["S", "E", "U", "E"]), "total": 1, "default": g.chance(25),
                "delays": [g.int(0, 3) for _ in range(g.int(0, 5))], "calls": calls, "ctl": ctl,
                "callers": [[0], [1]], "after": {"1": 0}}
    ctl = []
    for _ in range(g.int(2, 3 * n + 2)):
        k = g.weighted([(40, "open"), (22, "cancel"), (8, "ncancel"), (20, "entered"), (12, "yield"), (6, "settle")])
        if k == "yield":
            ctl.append(["yield", g.int(1, 4)])
        elif k == "settle":
            ctl.append(["settle", 0])
        else:
            ctl.append([k, g.int(0, n - 1)])
    # calls are issued by 1..n caller tasks, each running its calls one after the other (a caller survives the
    # cancellation of one of its calls and goes on with the next)
    m = g.int(1, n)
    owner = [g.int(0, m - 1) for _ in range(n)]
    callers = [[i for i in range(n) if owner[i] == c] for c in range(m)]
    callers = [c for c in callers if c]
    after = {str(i): g.int(0, i - 1) for i in range(1, n) if g.chance(20)}
    for i in range(n):
        if n >= 2 and g.chance(15):
            calls[i]["then_cancel"] = g.choice([j for j in range(n) if j != i])
    return {"config": g.choice(["S", "S", "U", "E"]), "total": g.int(1, 3), "default": g.chance(25),
            "delays": [g.int(0, 3) for _ in range(g.int(0, 5))], "calls": calls, "ctl": ctl, "callers": callers,
            "after": after}


_strategy = composite(_gen)


def strategy(tier):
    return _strategy()


class Hang(Exception):
    pass


def run_once(case, out, stats):
    n = len(case["calls"])
    total = case["total"]
    lock = threading.Lock()
    st = {"running": set(), "max_nonabandoned": 0, "entered": [threading.Event() for _ in range(n)],
          "finished": [threading.Event() for _ in range(n)], "gate": [threading.Event() for _ in range(n)],
          "ctx": {}, "cc": {}, "cb": {}, "abandoned": set(), "cancel_before_gate": set(), "exc": {},
          "cb_entered": {}, "cbgate": {}}
    outcome = {}
    scopes = {}
    cancel_requested = set()
    native_requested = set()
    gate_opened = set()
    callers = case.get("callers") or [[i] for i in range(n)]
    caller_of = {i: c for c, seq in enumerate(callers) for i in seq}
    tasks = {}
    current = {}
    invoked = set()
    stalled = set()
    native_hit = set()

    def fn(i):
        spec = case["calls"][i]
        with lock:
            st["running"].add(i)
            live = [j for j in st["running"] if j not in st["abandoned"]]
            st["max_nonabandoned"] = max(st["max_nonabandoned"], len(live))
        st["ctx"][i] = var.get()
        st["entered"][i].set()
        try:
            if not st["gate"][i].wait(25):
                st["cb"][i] = "gate-timeout"
            try:
                if spec["cb"] == "run_sync":
                    st["cb"][i] = from_thread.run_sync(lambda: ("loop", i, threading.get_ident()))
                elif spec["cb"] == "run":
                    async def back():
                        await asyncio.sleep(0)
                        return ("loop", i, threading.get_ident())
                    st["cb"][i] = from_thread.run(back)
                elif spec["cb"] == "run_shielded":
                    async def back_shielded():
                        # work that must not be interrupted: the caller's cancellation is held back by the shield
                        with CancelScope(shield=True):
                            st["cb_entered"][i] = True
                            for _ in range(2000):
                                if st["cbgate"].get(i):
                                    break
                                await anyio.sleep(0.001)
                            await asyncio.sleep(0)
                        return ("loop", i, threading.get_ident())
                    st["cb"][i] = from_thread.run(back_shielded)
            except BaseException as e:  # noqa: BLE001
                # from_thread.run joins the caller's cancel scope: a cancelled caller makes it raise in the thread
                st["cb"][i] = "raised:" + type(e).__name__
            if spec["cc"]:
                try:
                    from_thread.check_cancelled()
                    st["cc"][i] = "not-cancelled"
                except BaseException as e:  # noqa: BLE001
                    st["cc"][i] = "raised:" + type(e).__name__
            if spec["mode"] == "raise":
                e = Boom(i)
                st["exc"][i] = e
                raise e
            if spec["mode"] == "retexc":
                # an exception INSTANCE as the return value: it must come back as a value, not be raised
                e = st["exc"][i] = [Boom(i), asyncio.CancelledError(), StopIteration(7), KeyError(i)][i % 4]
                return e
            return ("v", i)
        finally:
            with lock:
                st["running"].discard(i)
            st["finished"][i].set()

    async def main():
        loop = asyncio.get_running_loop()
        loop_ident = threading.get_ident()
        if case["default"]:
            lim = to_thread.current_default_thread_limiter()
            lim.total_tokens = total
            limiter_arg = None
        else:
            lim = CapacityLimiter(total)
            limiter_arg = lim

        def anyio_cancel(e):
            return bool(e.args) and isinstance(e.args[0], str) and e.args[0].startswith("Cancelled via cancel scope")

        async def caller(c):
            import contextlib
            task = tasks[c] = asyncio.current_task()
            for i in callers[c]:
                spec = case["calls"][i]
                dep = (case.get("after") or {}).get(str(i))
                if dep is not None:
                    # issued only once an earlier-numbered call has entered its function (or ended without entering)
                    t0 = time.monotonic()
                    while not st["entered"][dep].is_set() and dep not in outcome:
                        if time.monotonic() - t0 > 25:
                            raise Hang()
                        try:
                            await anyio.sleep(0.001)
                        except asyncio.CancelledError:
                            if c not in native_hit:
                                raise
                            task.uncancel()
                var.set(i)
                current[c] = i
                try:
                    with CancelScope(shield=bool(spec.get("shielded"))) as sc, \
                            (CancelScope() if spec.get("nest") else contextlib.nullcontext()):
                        scopes[i] = sc      # with "nest" the cancelled scope is an ancestor of the one run_sync sits in
                        invoked.add(i)
                        try:
                            r = await to_thread.run_sync(fn, i, abandon_on_cancel=spec["abandon"], limiter=limiter_arg)
                            outcome[i] = ("value", r, time.monotonic(), i in gate_opened)
                            tc = spec.get("then_cancel")
                            if tc is not None and tc in scopes and tc in invoked and tc not in outcome \
                                    and tc not in cancel_requested and not st["entered"][tc].is_set():
                                # in the very loop step in which this call gave its token back: cancel a call that is
                                # still queued for the limiter (it may just have been handed that token)
                                cancel_requested.add(tc)
                                stats["cancel_in_release_step"] += 1
                                scopes[tc].cancel()
                        except Boom as e:
                            outcome[i] = ("raised", e, time.monotonic(), i in gate_opened)
                        except asyncio.CancelledError as e:
                            outcome[i] = ("cancelled" if anyio_cancel(e) else "native-cancelled", None, time.monotonic(),
                                          i in gate_opened)
                            raise
                        # the pending cancellation (non-abandon case) must land at the next checkpoint
                        try:
                            await anyio.lowlevel.checkpoint()
                            outcome[i] += ("checkpoint-ok",)
                        except asyncio.CancelledError:
                            outcome[i] += ("checkpoint-cancelled",)
                            raise
                except asyncio.CancelledError:
                    # a native Task.cancel() issued by the controller: this caller handles it and carries on
                    if c not in native_hit:
                        raise
                    task.uncancel()
                finally:
                    current[c] = None
                if lim.borrowed_tokens > lim.total_tokens:
                    out.bad("borrowed-above-total", "", f"{lim.borrowed_tokens} > {lim.total_tokens}")

        async def poll(ev, limit=25.0):
            t0 = time.monotonic()
            while not ev.is_set():
                if time.monotonic() - t0 > limit:
                    raise Hang()
                await anyio.sleep(0.001)

        async def controller():
            for step in case["ctl"]:
                k, a = step
                if TRACE:
                    print("ctl", step, "entered", [j for j in range(n) if st["entered"][j].is_set()], "finished",
                          [j for j in range(n) if st["finished"][j].is_set()], "outcome", sorted(outcome),
                          "invoked", sorted(invoked), lim.statistics())
                if k == "yield":
                    for _ in range(a):
                        await anyio.sleep(0)
                elif k == "open":
                    gate_opened.add(a)
                    st["gate"][a].set()
                elif k == "cancel":
                    sc = scopes.get(a)
                    if sc is not None and a not in outcome:
                        if st["entered"][a].is_set() and not st["finished"][a].is_set():
                            stats["cancelled_while_running"] += 1
                            if a not in gate_opened:
                                st["cancel_before_gate"].add(a)
                        elif not st["entered"][a].is_set():
                            stats["cancelled_before_start"] += 1
                        cancel_requested.add(a)
                        if case["calls"][a]["abandon"]:
                            with lock:
                                st["abandoned"].add(a)
                        sc.cancel()
                elif k == "cbwait":
                    t0 = time.monotonic()
                    while not st["cb_entered"].get(a) and a not in outcome and time.monotonic() - t0 < 1.0:
                        await anyio.sleep(0.001)
                    if st["cb_entered"].get(a) and a not in outcome:
                        stats["callback_parked_behind_shield"] += 1
                elif k == "cbopen":
                    st["cbgate"][a] = True
                elif k == "settle":
                    # let thread->loop reports arrive, then check the limiter's books: every call in progress either
                    # holds a token or waits for one (a call spends at most one cycle before it reaches the limiter)
                    await anyio.sleep(0.02)
                    for _ in range(2):
                        inflight = [j for j in invoked if j not in outcome]
                        stt = lim.statistics()
                        if len(inflight) <= stt.borrowed_tokens + stt.tasks_waiting:
                            break
                        for _ in range(3):
                            await anyio.sleep(0)
                    else:
                        out.bad("token-accounting", "", f"calls in progress {sorted(inflight)} but borrowed_tokens="
                                                        f"{stt.borrowed_tokens}, tasks_waiting={stt.tasks_waiting}")
                    stats["settle_checks"] += 1
                elif k == "ncancel":
                    c = caller_of[a]
                    if current.get(c) == a and a in invoked and a not in outcome and a not in cancel_requested \
                            and c not in native_hit:
                        if st["entered"][a].is_set() and not st["finished"][a].is_set():
                            stats["native_cancel_while_running"] += 1
                        cancel_requested.add(a)
                        native_requested.add(a)
                        native_hit.add(c)
                        with lock:
                            st["abandoned"].add(a)      # the function runs on as an orphan, without a token
                        tasks[c].cancel()
                elif k == "entered":
                    # wait until call a has entered its function, unless it can never get there
                    t0 = time.monotonic()
                    while not st["entered"][a].is_set() and a not in outcome:
                        blocked = len([j for j in range(n) if st["entered"][j].is_set() and not st["finished"][j].is_set()
                                       and j not in st["abandoned"]]) >= total
                        if blocked or a in cancel_requested:
                            break
                        if time.monotonic() - t0 > 1.0:
                            inflight = [j for j in invoked if j not in outcome]
                            if a in invoked and len(inflight) <= total:
                                # every call in progress holds a token, yet this one's function has not started
                                stalled.add(a)
                            break
                        await anyio.sleep(0.001)
            # release everything
            for i in range(n):
                gate_opened.add(i)
                st["gate"][i].set()
                st["cbgate"][i] = True

        try:
            with anyio.fail_after(30):
                async with create_task_group() as tg:
                    for c in range(len(callers)):
                        tg.start_soon(caller, c)
                    await anyio.sleep(0)
                    await anyio.sleep(0)
                    await controller()
                # all callers are done; every started function must finish (abandoned ones too)
                for i in range(n):
                    if st["entered"][i].is_set():
                        await poll(st["finished"][i])
                await anyio.sleep(0.01)
                if lim.borrowed_tokens != 0:
                    out.bad("token-leak", "", f"borrowed_tokens == {lim.borrowed_tokens} after all calls ended")
                if lim.statistics().tasks_waiting:
                    out.bad("token-leak", "waiters", f"{lim.statistics()}")
        except TimeoutError:
            for g_ in st["gate"]:
                g_.set()
            raise Hang() from None
        # ---- verdicts
        if n > total:
            stats["more_calls_than_tokens"] += 1
        if len(callers) < n:
            stats["caller_with_several_calls"] += 1
        for a in sorted(stalled):
            out.bad("function-not-started", "", f"call {a} held a limiter token (calls in progress <= total_tokens) "
                                                f"but its function had not started after 1 s")
        if st["max_nonabandoned"] > total:
            out.bad("thread-bound-exceeded", "", f"{st['max_nonabandoned']} functions running with total_tokens={total}")
        for i, spec in enumerate(case["calls"]):
            o = outcome.get(i)
            if o is None:
                out.bad("call-never-ended", "", f"call {i}")
                continue
            entered = st["entered"][i].is_set()
            if entered and st["ctx"].get(i) != i:
                out.bad("context-not-propagated", "", f"call {i} saw {st['ctx'].get(i)!r}")
            if spec["cb"] and entered and st["cb"].get(i) != "gate-timeout":
                r = st["cb"].get(i)
                if isinstance(r, str) and r.startswith("raised:") and i in native_requested:
                    pass        # the orphaned function's caller context is gone
                elif spec["cb"] == "run_shielded" and st["cb_entered"].get(i) and not spec["abandon"] \
                        and not (isinstance(r, tuple) and r[:2] == ("loop", i) and r[2] == loop_ident):
                    out.bad("from-thread-callback-wrong", "shield-broken",
                            f"call {i}: the coroutine run through from_thread.run() shields its work, yet got {r!r}")
                elif isinstance(r, str) and r.startswith("raised:Cancelled") and i in cancel_requested:
                    pass
                elif not (isinstance(r, tuple) and r[:2] == ("loop", i) and r[2] == loop_ident):
                    out.bad("from-thread-callback-wrong", spec["cb"], f"call {i}: {r!r}")
            kind = o[0]
            if kind == "value" and spec["mode"] == "retexc":
                if o[1] is not st["exc"].get(i):
                    out.bad("wrong-result", "returned-exception-object", f"call {i}: {o[1]!r}")
                if not o[3]:
                    out.bad("returned-before-function-finished", "", f"call {i} returned while its gate was still closed")
            elif kind == "raised" and spec["mode"] == "retexc":
                out.bad("wrong-result", "returned-exception-object-was-raised", f"call {i}: {o[1]!r}")
            elif kind == "value":
                if o[1] != ("v", i) or spec["mode"] == "raise":
                    out.bad("wrong-result", "value", f"call {i}: {o[1]!r}")
                if not o[3]:
                    out.bad("returned-before-function-finished", "", f"call {i} returned while its gate was still closed")
            elif kind == "raised":
                if st["exc"].get(i) is not o[1]:
                    out.bad("wrong-result", "exception", f"call {i}: {o[1]!r}")
            elif kind == "native-cancelled":
                if caller_of[i] not in native_hit:
                    out.bad("cancelled-without-request", "native", f"call {i}")
                continue        # a native cancellation cuts through the shield: nothing more is promised for this call
            else:
                if i not in cancel_requested:
                    out.bad("cancelled-without-request", "", f"call {i}")
                if entered and not spec["abandon"]:
                    out.bad("cancellation-took-effect-before-function-finished", "",
                            f"call {i} (abandon_on_cancel=False) raised the cancellation although its function had started")
            if i in native_requested:
                continue
            if i in cancel_requested and kind != "cancelled":
                # result still returned; then the cancellation must be delivered at the next checkpoint
                if len(o) > 4 and o[4] != "checkpoint-cancelled":
                    out.bad("pending-cancellation-lost", "", f"call {i}: checkpoint after run_sync completed normally")
            if i not in cancel_requested and kind == "cancelled":
                pass
            if not entered and kind != "cancelled":
                out.bad("result-without-running", "", f"call {i}")
            if spec["cc"] and entered and not spec["abandon"]:
                cc = st["cc"].get(i)
                if i in st["cancel_before_gate"] and cc == "not-cancelled":
                    out.bad("check-cancelled-missed", "", f"call {i}: cancelled before its gate opened")
                if i not in cancel_requested and cc is not None and cc.startswith("raised"):
                    out.bad("check-cancelled-spurious", "", f"call {i}: {cc}")
            if spec["abandon"] and i in st["cancel_before_gate"] and kind != "cancelled":
                out.bad("abandon-did-not-release-caller", "", f"call {i}: {kind}")

    if case["config"] == "U":
        import uvloop
        factory = uvloop.new_event_loop
    else:
        def factory():
            loop = RLoop()
            loop.delays = list(case["delays"])
            if case["config"] == "E":
                loop.set_task_factory(asyncio.eager_task_factory)
            return loop
    try:
        anyio.run(main, backend_options={"loop_factory": factory})
    finally:
        for g_ in st["gate"]:
            g_.set()


def run_twoloops(case, out, stats):
    """to_thread used from two event loops of one process: loop A (anyio.run) first leaves idle workers behind, then a
    blocking call of A opens a portal (loop B) whose own to_thread call must come back to B."""
    box = {}
    gates = [threading.Event() for _ in range(4)]

    def plain(i):
        if case["overlap"]:
            gates[i].wait(5)
        return ("v", i, threading.get_ident())

    async def b_call():
        ident_b = threading.get_ident()
        r = await to_thread.run_sync(plain, 3)
        return (ident_b, r)

    def blocking_library_code():
        from anyio.from_thread import start_blocking_portal
        with start_blocking_portal() as portal:
            fut = portal.start_task_soon(b_call)
            try:
                box["b"] = fut.result(timeout=10)
            except BaseException as e:  # noqa: BLE001
                box["b_error"] = type(e).__name__
                fut.cancel()

    async def main():
        async with create_task_group() as tg:
            for i in range(case["prior"]):
                tg.start_soon(to_thread.run_sync, plain, i)
            await anyio.sleep(0.01)
            for g_ in gates:
                g_.set()
        await anyio.sleep(0.005)
        with anyio.move_on_after(20):
            await to_thread.run_sync(blocking_library_code, abandon_on_cancel=True)
            box["a_done"] = True

    if case["config"] == "U":
        import uvloop
        anyio.run(main, backend_options={"loop_factory": uvloop.new_event_loop})
    else:
        anyio.run(main)
    stats["two_loops"] += 1
    if not box.get("a_done") or "b" not in box:
        out.bad("call-never-ended", "second-loop", f"{case}: to_thread.run_sync called in a second event loop did not "
                                                   f"return ({box.get('b_error')})")
    else:
        ident_b, r = box["b"]
        if r[:2] != ("v", 3):
            out.bad("wrong-result", "second-loop", f"{case}: {r!r}")


def run_idle_expiry(case, out, stats):
    """Workers left idle for longer than WorkerThread.MAX_IDLE_TIME are pruned at the next call, which must still run.
    The constant (10 s) is lowered for the duration of the case: the one private knob this check touches."""
    import anyio._backends._asyncio as backend

    wt = getattr(backend, "WorkerThread", None)
    if wt is None or not hasattr(wt, "MAX_IDLE_TIME"):
        out.discard = True
        return
    box = {}
    gates = [threading.Event() for _ in range(case["warm"])]

    def plain(i, wait):
        if wait:
            gates[i].wait(5)
        return ("v", i)

    async def main():
        async with create_task_group() as tg:
            for i in range(case["warm"]):
                tg.start_soon(to_thread.run_sync, plain, i, True)
            await anyio.sleep(0.01)
            for g_ in gates:
                g_.set()
        await anyio.sleep(case["idle"])
        res = []
        for i in range(case["later"]):
            try:
                with anyio.fail_after(10):
                    res.append(await to_thread.run_sync(plain, 100 + i, False))
            except BaseException as e:  # noqa: BLE001
                res.append(("raised", type(e).__name__, str(e)[:80]))
        box["res"] = res

    old = wt.MAX_IDLE_TIME
    wt.MAX_IDLE_TIME = 0.15
    try:
        if case["config"] == "U":
            import uvloop
            anyio.run(main, backend_options={"loop_factory": uvloop.new_event_loop})
        else:
            anyio.run(main)
    finally:
        wt.MAX_IDLE_TIME = old
    stats["idle_expiry"] += 1
    for i, r in enumerate(box.get("res", [])):
        if r != ("v", 100 + i):
            out.bad("wrong-result", "after-idle-expiry", f"{case}: call {i} after the idle period gave {r!r}")
    if len(box.get("res", [])) != case["later"]:
        out.bad("call-never-ended", "after-idle-expiry", f"{case}")


def run_case(case) -> Outcome:
    out = Outcome()
    if case.get("kind") == "idle":
        stats = {"idle_expiry": 0}
        run_idle_expiry(case, out, stats)
        out.nontrivial = case["warm"] >= 1 and case["idle"] > 0.15
        out.labels = ["idle-expiry", "config-" + case["config"]]
        return out
    if case.get("kind") == "twoloops":
        stats = {"two_loops": 0}
        run_twoloops(case, out, stats)
        out.nontrivial = case["prior"] >= 2
        out.labels = ["two-loops", "config-" + case["config"]]
        return out
    stats = dict.fromkeys(["cancelled_while_running", "cancelled_before_start", "more_calls_than_tokens",
                           "watchdog_rerun", "native_cancel_while_running", "caller_with_several_calls",
                           "stall_rerun", "settle_checks", "callback_parked_behind_shield",
                           "cancel_in_release_step"], 0)
    for attempt in range(3):
        trial = Outcome()
        try:
            run_once(case, trial, stats)
        except Hang:
            stats["watchdog_rerun"] += 1
            continue
        if any(v.rule == "function-not-started" for v in trial.viols) and attempt < 2:
            stats["stall_rerun"] += 1       # time-based verdict: only counts if it shows on every run
            continue
        out.viols = trial.viols
        break
    else:
        out.bad("hang", "", f"{case}: no completion within 30 s on 3 runs")
    out.nontrivial = bool(stats["more_calls_than_tokens"] or stats["cancelled_while_running"])
    out.labels = [k for k, v in stats.items() if v] + ["config-" + case["config"]]
    if case["default"]:
        out.labels.append("default-limiter")
    if any(c["abandon"] for c in case["calls"]):
        out.labels.append("abandon_on_cancel")
    return out
