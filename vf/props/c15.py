"""C15 BlockingPortal: every cross-thread call is run once, answered and joined (real threads).

Case = {"config": "S"|"U", "delays": [...], "threads": n, "free": bool,
        "steps": [[thread, op, id, arg...]], "exit_at": index into steps, "exit": "normal"|"raise"}
ops: call_sync | call_async k | call_raise | soon_block | soon_value k | start_task k post | cancel id | result id | release id
"""
from __future__ import annotations

import asyncio
import threading
import time
from concurrent.futures import CancelledError as FutCancelled

import anyio
from anyio.from_thread import start_blocking_portal

from ..gen import composite
from ..loops import RLoop
from ..runner import Outcome

ID = "C15"
JOBS_PER_WORKER = 1
CASE_TIMEOUT_S = 200
RULE = ("Hypothesis-generated scripts for 1-3 caller threads against one start_blocking_portal(): call(sync/async/"
        "raising), start_task_soon(blocker / value), start_task(child calling started() then returning, raising or "
        "blocking), future.cancel(), future.result(), release of blockers; steps sequenced by a generated global turn "
        "order or free-running; the portal is left normally or with an exception (cancel_remaining) at a generated point, "
        "with calls still in flight and further calls issued after stop; generated call_soon_threadsafe latencies; "
        "sub-cases: stop() called 1-3 times from a task inside the portal with generated cancel_remaining flags; caller "
        "thread that is a to_thread worker of another event loop; "
        "non-trivial = two or more caller threads with calls in flight at stop, or a future cancelled while its task is "
        "parked; distinct = distinct canonical JSON")
ASSUMPTIONS = [
    "calls racing with stop() may be accepted or refused; whichever happens, exactly-once / never-run must hold",
    "thread interleavings finer than the harness' turn order and injected loop latencies are reached only by chance",
    "30 s watchdog, re-run twice: only a hang on every run is a violation",
]
TECHNIQUE = "Hypothesis-generated multi-thread scripts with turn-order control and injected loop latencies; exactly-once / routing / join-on-exit invariants"
LEVEL_TEXT = ("Invariants over generated histories: each accepted call's callable ran exactly once, on the loop thread, and "
              "its value / exception object / started() value reached exactly the right caller; refused calls raise "
              "RuntimeError and never run; cancelling a future cancels precisely its task; when the portal context is "
              "left every accepted future is done, every task body has ended (cancelled when cancel_remaining) and the "
              "portal thread is gone. Exploration under controlled macro-schedules.")
LEVEL_NOTE = "Trusted: harness execution counters, turn-order barrier, 30 s watchdog."
DESIGN_REF = "3/C15"


class Boom(Exception):
    pass


class BodyError(Exception):
    pass


def budget(tier):
    return 1200 if tier == "quick" else 24000


def _gen(g):
    if g.chance(10):
        # stop() called from a task inside the portal, possibly several times with different cancel_remaining flags
        nb = g.int(1, 3)
        return {"kind": "stopseq", "config": g.choice(["S", "S", "U"]), "delays": [g.int(0, 3) for _ in range(g.int(0, 4))],
                "blockers": [g.chance(30) for _ in range(nb)], "stops": [g.bool() for _ in range(g.int(1, 3))],
                "gaps": [g.int(0, 3) for _ in range(3)], "threads": 1, "free": False, "exit": "normal", "steps": []}
    if g.chance(6):
        # the caller thread is an AnyIO worker thread of ANOTHER event loop (blocking library code run through
        # to_thread.run_sync that opens a portal of its own)
        return {"kind": "fromworker", "config": g.choice(["S", "S", "U"]), "delays": [],
                "ops": [g.choice(["call_sync", "call_async", "soon_value", "start_task"]) for _ in range(g.int(1, 5))],
                "threads": 1, "free": False, "exit": "normal", "steps": []}
    nt = g.int(1, 3)
    steps = []
    ids = 0
    made = []      # (id, kind) of futures created so far
    for _ in range(g.int(2, 12)):
        t = g.int(0, nt - 1)
        k = g.weighted([(16, "call_sync"), (16, "call_async"), (8, "call_raise"), (18, "soon_block"), (8, "soon_value"),
                        (14, "start_task"), (22 if made else 0, "cancel"), (6 if made else 0, "result"),
                        (6 if made else 0, "release")])
        if k in ("cancel", "result", "release"):
            steps.append([t, k, g.choice(made)[0]])
            continue
        ids += 1
        if k in ("call_async", "soon_value"):
            steps.append([t, k, ids, g.int(0, 3)])
        elif k == "start_task":
            steps.append([t, k, ids, g.int(0, 3), g.choice(["return", "raise", "block"]), g.chance(25)])
        elif k == "soon_block":
            steps.append([t, k, ids, g.chance(50)])      # raise an ordinary exception when cancelled?
        else:
            steps.append([t, k, ids])
        if k in ("soon_block", "soon_value", "start_task"):
            made.append((ids, k))
    return {"config": g.choice(["S", "S", "U"]), "delays": [g.int(0, 3) for _ in range(g.int(0, 5))], "threads": nt,
            "free": g.chance(30), "steps": steps, "exit_at": g.int(1, len(steps)), "exit": g.choice(["normal", "raise"])}


_strategy = composite(_gen)


def strategy(tier):
    return _strategy()


class Hang(Exception):
    pass


def run_once(case, out, stats):
    lock = threading.Lock()
    execs = {}          # id -> number of executions of the callable
    ran_on = {}         # id -> thread ident
    ended = {}          # id -> "return"|"raise"|"cancelled"
    started_flag = {}
    script_released = set()
    futures = {}
    results = {}        # id -> what the issuing thread observed
    events = {}         # id -> anyio.Event (created in the loop)
    exc_objs = {}
    errors = []
    late = set()        # ids of calls issued after the portal context had been left
    bg_threads = []     # threads sitting inside a blocking start_task()
    state = {"stopped": False, "exit_begun": False}
    n_steps = len(case["steps"])
    turn = {"i": 0}
    cv = threading.Condition()

    def note(i):
        with lock:
            execs[i] = execs.get(i, 0) + 1
            ran_on[i] = threading.get_ident()

    def sync_fn(i):
        note(i)
        return ("sync", i)

    async def async_fn(i, k):
        note(i)
        for _ in range(k):
            await asyncio.sleep(0)
        return ("async", i)

    def raise_fn(i):
        note(i)
        e = exc_objs[i] = Boom(i)
        raise e

    async def blocker(i, raise_on_cancel=False):
        note(i)
        ev = events.setdefault(i, anyio.Event())
        started_flag[i] = True
        try:
            await ev.wait()
            ended[i] = "return"
            return ("released", i)
        except asyncio.CancelledError:
            ended[i] = "cancelled"
            if raise_on_cancel:
                # cleanup that fails / converts the cancellation into an ordinary error
                e = exc_objs[i] = Boom(i)
                raise e from None
            raise

    async def valuer(i, k):
        note(i)
        try:
            for _ in range(k):
                await asyncio.sleep(0)
            ended[i] = "return"
            return ("soon", i)
        except asyncio.CancelledError:
            ended[i] = "cancelled"
            raise

    async def starter(i, k, post, park_before=False, *, task_status):
        note(i)
        try:
            for _ in range(k):
                await asyncio.sleep(0)
            if park_before:
                ev0 = events.setdefault(("pre", i), anyio.Event())
                started_flag[i] = True
                await ev0.wait()
            task_status.started(("s", i))
            if post == "raise":
                e = exc_objs[i] = Boom(i)
                ended[i] = "raise"
                raise e
            if post == "block":
                ev = events.setdefault(i, anyio.Event())
                started_flag[i] = True
                await ev.wait()
            ended[i] = "return"
            return ("task", i)
        except asyncio.CancelledError:
            ended[i] = "cancelled"
            raise

    def do_step(portal, step):
        op, i = step[1], step[2]
        try:
            if op == "call_sync":
                results[i] = ("value", portal.call(sync_fn, i))
            elif op == "call_async":
                try:
                    results[i] = ("value", portal.call(async_fn, i, step[3]))
                except FutCancelled:
                    results[i] = ("call-cancelled",)
            elif op == "call_raise":
                try:
                    portal.call(raise_fn, i)
                    results[i] = ("value", None)
                except Boom as e:
                    results[i] = ("raised", e)
            elif op == "soon_block":
                futures[i] = portal.start_task_soon(blocker, i, len(step) > 3 and step[3])
                results[i] = ("future",)
            elif op == "soon_value":
                futures[i] = portal.start_task_soon(valuer, i, step[3])
                results[i] = ("future",)
            elif op == "start_task":
                try:
                    fut, val = portal.start_task(starter, i, step[3], step[4], len(step) > 5 and step[5])
                    futures[i] = fut
                    results[i] = ("started", val)
                except FutCancelled:
                    results[i] = ("start-cancelled",)
            elif op == "cancel":
                f = futures.get(i)
                if f is not None:
                    if f.cancel():
                        with lock:
                            results.setdefault(("cancelled", i), True)
                        if started_flag.get(i) and i not in ended:
                            stats["future_cancelled_while_parked"] += 1
            elif op == "result":
                f = futures.get(i)
                if f is not None:
                    try:
                        results[("result", i)] = ("value", f.result(timeout=0.05))
                    except FutCancelled:
                        results[("result", i)] = ("cancelled",)
                    except TimeoutError:
                        results[("result", i)] = ("pending",)
                    except Boom as e:
                        results[("result", i)] = ("raised", e)
            elif op == "release":
                for key in (i, ("pre", i)):
                    ev = events.get(key)
                    if ev is not None:
                        script_released.add(i)
                        portal.call(ev.set)
        except RuntimeError as e:
            # the portal (or its task group / event loop) no longer accepts calls
            if op not in ("cancel", "result", "release"):
                results[i] = ("refused", str(e))
        except Exception as e:  # noqa: BLE001
            errors.append((step, repr(e)))

    def worker(t, portal):
        for idx, step in enumerate(case["steps"]):
            if step[0] != t:
                continue
            if idx >= case["exit_at"] and case.get("race"):
                # curated F12 replay: issue the call while the portal's stop() is in flight
                t0 = time.monotonic()
                while not state.get("exit_begun") and time.monotonic() - t0 < 25:
                    time.sleep(0.0005)
                time.sleep(0.012)
            if idx >= case["exit_at"] and not case.get("race"):
                # calls racing with the shutdown itself are excluded by construction (known finding F12):
                # the remaining steps are issued once the portal context has been left, where refusal is certain
                t0 = time.monotonic()
                while not state.get("left") and time.monotonic() - t0 < 25:
                    time.sleep(0.001)
                stats["steps_after_exit"] += 1
                late.add(step[2] if step[1] not in ("cancel", "result", "release") else None)
            if not case["free"] and idx < case["exit_at"]:
                with cv:
                    if not cv.wait_for(lambda: turn["i"] >= idx, timeout=25):
                        errors.append((step, "turn-timeout"))
                        return
            blocking = step[1] == "start_task" and len(step) > 5 and step[5]
            if blocking:
                # the caller stays inside start_task() until the child calls started(): issue it from a thread
                # of its own so that the script of this caller thread goes on
                bt = threading.Thread(target=do_step, args=(portal, step), daemon=True)
                bt.start()
                bg_threads.append(bt)
                t0 = time.monotonic()       # wait until the child is running (or the call was answered): no race with stop()
                while step[2] not in execs and step[2] not in results and time.monotonic() - t0 < 5:
                    time.sleep(0.0005)
            else:
                do_step(portal, step)
            if idx < case["exit_at"]:
                with lock:
                    state["pre_done"] = state.get("pre_done", 0) + 1
            if not case["free"] and idx < case["exit_at"]:
                with cv:
                    turn["i"] = max(turn["i"], idx + 1)
                    cv.notify_all()

    if case["config"] == "U":
        import uvloop
        factory = uvloop.new_event_loop
    else:
        def factory():
            loop = RLoop()
            loop.delays = list(case["delays"])
            return loop

    body_exc = None
    portal_thread = {}
    threads = []
    t_exit = {}
    try:
        with start_blocking_portal(backend_options={"loop_factory": factory}) as portal:
            portal_thread["ident"] = portal.call(threading.get_ident)
            portal_thread["loop"] = portal.call(asyncio.get_running_loop)
            threads = [threading.Thread(target=worker, args=(t, portal), daemon=True) for t in range(case["threads"])]
            for th in threads:
                th.start()
            # the with-body waits until step exit_at has been reached (turn order) or briefly (free running)
            if case["free"]:
                t0 = time.monotonic()
                while state.get("pre_done", 0) < case["exit_at"] and time.monotonic() - t0 < 25:
                    time.sleep(0.001)
            else:
                with cv:
                    cv.wait_for(lambda: turn["i"] >= case["exit_at"], timeout=25)
            inflight = [i for i, f in futures.items() if not f.done()]
            if len(inflight) >= 1 and case["threads"] >= 2:
                stats["calls_in_flight_at_stop"] += 1
            state["exit_begun"] = True
            if case["exit"] == "normal":
                # blockers are released a little later by a helper: leaving the context must wait for them
                def late_release():
                    time.sleep(0.03)
                    deadline = time.monotonic() + 20
                    while not state.get("left") and time.monotonic() < deadline:
                        for i, ev in list(events.items()):
                            if ev.is_set():
                                continue
                            try:
                                # harness plumbing, not the API under test: wake the parked task through the loop
                                portal_thread["loop"].call_soon_threadsafe(ev.set)
                            except RuntimeError:
                                pass
                        time.sleep(0.01)
                helper = threading.Thread(target=late_release, daemon=True)
                helper.start()
                state["helper"] = helper
                # let the turn order continue so remaining steps run against a stopping/stopped portal
                with cv:
                    turn["i"] = n_steps
                    cv.notify_all()
            else:
                with cv:
                    turn["i"] = n_steps
                    cv.notify_all()
                raise BodyError()
        t_exit["t"] = time.monotonic()
    except BodyError as e:
        body_exc = e
        t_exit["t"] = time.monotonic()
    state["left"] = True
    if state.get("helper") is not None:
        state["helper"].join(25)
    # snapshot at the moment the context has been left
    snap_done = {i: f.done() for i, f in futures.items()}
    snap_ended = dict(ended)
    snap_execs = dict(execs)
    for th in threads + bg_threads:
        th.join(4 if case.get("race") else 10)
        if th.is_alive():
            if case.get("race"):
                out.bad("call-left-hanging", "F12:call-racing-with-portal-shutdown",
                        "a portal call issued while the portal was shutting down never returned")
                return body_exc
            raise Hang()
    # ---- verdicts
    for step, err in errors:
        out.bad("unexpected-error-in-caller", step[1], f"{step}: {err}")
    pid = portal_thread.get("ident")
    for i, n in execs.items():
        if n != 1:
            out.bad("executed-more-than-once", "", f"callable {i} ran {n} times")
        if ran_on.get(i) != pid:
            out.bad("ran-on-wrong-thread", "", f"callable {i}")
    for step in case["steps"]:
        op, i = step[1], step[2]
        if op in ("cancel", "result", "release"):
            continue
        r = results.get(i)
        if r is None:
            continue
        if r[0] == "refused":
            if execs.get(i, 0):
                out.bad("refused-call-was-executed", op, f"{step}")
            if i not in late and not case.get("race"):
                out.bad("call-refused-while-portal-running", op,
                        f"{step}: issued before the portal context was left, yet refused with {r[1]!r}")
            continue
        if i in late and not case.get("race"):
            out.bad("call-accepted-after-stop", op, f"{step}: issued after the portal context had been left, got {r!r}")
            continue
        if op in ("call_sync", "call_async"):
            want = ("sync", i) if op == "call_sync" else ("async", i)
            if r == ("call-cancelled",):
                if case["exit"] != "raise":
                    out.bad("call-cancelled-without-cancel-remaining", op, f"{step}")
                continue
            if r != ("value", want):
                out.bad("wrong-result-routed", op, f"{step}: {r!r}")
            if execs.get(i) != 1:
                out.bad("answered-without-running", op, f"{step}")
        elif op == "call_raise":
            if r[0] != "raised" or r[1] is not exc_objs.get(i):
                out.bad("wrong-result-routed", op, f"{step}: {r!r}")
        elif op == "start_task":
            if r[0] == "started" and r[1] != ("s", i):
                out.bad("wrong-start-value", "", f"{step}: {r!r}")
    # futures: done at exit, results routed
    for i, f in futures.items():
        if i not in snap_done:
            continue        # the issuing thread had not stored the future yet when the snapshot was taken
        if not snap_done.get(i):
            # futures of calls that were still being issued concurrently with the exit may be created late
            if i in snap_execs or i in snap_ended:
                out.bad("future-not-done-at-exit", "", f"future {i} pending when the portal context had been left "
                        f"(state now {f._state}, executions {snap_execs.get(i)}, ended {snap_ended.get(i)!r}, "
                        f"caller saw {results.get(i)!r}, portal threads alive "
                        f"{[t.name for t in threading.enumerate() if 'portal' in t.name]})")
            continue
        if f.cancelled():
            if snap_execs.get(i) and snap_ended.get(i) not in ("cancelled", None) and ("cancelled", i) in results:
                pass
            continue
        try:
            v = f.result(timeout=0)
        except Boom as e:
            if e is not exc_objs.get(i):
                out.bad("wrong-result-routed", "future", f"future {i}: {e!r}")
            continue
        except BaseException as e:  # noqa: BLE001
            out.bad("wrong-result-routed", "future", f"future {i}: {e!r}")
            continue
        if not (isinstance(v, tuple) and v[1] == i):
            out.bad("wrong-result-routed", "future", f"future {i}: {v!r}")
    # join on exit: every task body that began has ended by the time the context was left
    for i, n in snap_execs.items():
        kind = next((s[1] for s in case["steps"] if s[2] == i and s[1] not in ("cancel", "result", "release")), None)
        if kind in ("soon_block", "soon_value", "start_task") and i not in snap_ended:
            out.bad("task-outlived-portal", kind, f"task {i} had started but not ended when the portal context was left")
    if case["exit"] == "raise":
        for i in snap_execs:
            if started_flag.get(i) and snap_ended.get(i) == "return" and events.get(i) is not None \
                    and not events[i].is_set():
                out.bad("parked-task-not-cancelled", "", f"task {i}")
    # cancelling a future cancels precisely that task
    for key in list(results):
        if isinstance(key, tuple) and key[0] == "cancelled":
            i = key[1]
            # (a release by the script may race with the cancel; the harness' own late release cannot: it comes after
            # every pre-exit step has returned, and Future.cancel() returns only after scope.cancel() ran in the loop)
            if execs.get(i) and ended.get(i) not in ("cancelled",) and started_flag.get(i) \
                    and i not in script_released:
                out.bad("future-cancel-did-not-cancel-task", "", f"task {i} ended {ended.get(i)!r}")
    for i, how in ended.items():
        if how == "cancelled" and ("cancelled", i) not in results and case["exit"] != "raise":
            # cancelled although nobody cancelled its future and the portal was left normally
            out.bad("task-cancelled-spuriously", "", f"task {i} ended cancelled although nobody cancelled its future and "
                                                     f"the portal was left without cancel_remaining")
    return body_exc


def run_stopseq(case, out, stats):
    """Blockers parked in the portal; a portal task calls stop() one or more times; see _gen."""
    ended, started, exc_objs = {}, {}, {}
    events = {}
    verdict = {}
    done_evt = threading.Event()
    nb = len(case["blockers"])

    async def blocker(i, raise_on_cancel):
        ev = events[i] = anyio.Event()
        started[i] = True
        try:
            await ev.wait()
            ended[i] = "return"
            return ("released", i)
        except asyncio.CancelledError:
            ended[i] = "cancelled"
            if raise_on_cancel:
                e = exc_objs[i] = Boom(i)
                raise e from None
            raise

    async def stopper(portal):
        try:
            for k, cr in enumerate(case["stops"]):
                with anyio.CancelScope(shield=True):
                    await portal.stop(cancel_remaining=cr)
                    for _ in range(case["gaps"][k % len(case["gaps"])]):
                        await asyncio.sleep(0)
            with anyio.CancelScope(shield=True):
                for _ in range(20):
                    await asyncio.sleep(0)
            verdict["pending"] = [i for i in range(nb) if i not in ended]
        finally:
            done_evt.set()

    if case["config"] == "U":
        import uvloop
        factory = uvloop.new_event_loop
    else:
        def factory():
            loop = RLoop()
            loop.delays = list(case["delays"])
            return loop

    futs = []
    with start_blocking_portal(backend_options={"loop_factory": factory}) as portal:
        loop = portal.call(asyncio.get_running_loop)
        futs = [portal.start_task_soon(blocker, i, roc) for i, roc in enumerate(case["blockers"])]
        t0 = time.monotonic()
        while len(started) < nb:
            if time.monotonic() - t0 > 10:
                raise Hang()
            time.sleep(0.0005)
        portal.start_task_soon(stopper, portal)
        if not done_evt.wait(15):
            raise Hang()
        try:
            portal.call(lambda: None)
            out.bad("call-accepted-after-stop", "stop-from-task", f"{case}")
        except RuntimeError:
            pass
        if not any(case["stops"]) or verdict.get("pending"):
            for ev in list(events.values()):
                try:
                    loop.call_soon_threadsafe(ev.set)      # harness plumbing: let the parked tasks finish
                except RuntimeError:
                    break       # the loop is gone already: nothing is parked any more (judged by the rules below)
    stats["stop_from_task"] += 1
    if len(case["stops"]) >= 2:
        stats["stop_called_twice"] += 1
    pending = verdict.get("pending")
    if pending is None:
        out.bad("stopper-failed", "", f"{case}")
        return
    if any(case["stops"]):
        if pending:
            out.bad("cancel-remaining-ignored", "", f"{case}: tasks {pending} still parked 20 cycles after "
                                                    f"stop(cancel_remaining=True) returned")
        for i, f in enumerate(futs):
            if ended.get(i) == "cancelled" and not case["blockers"][i] and not f.cancelled():
                out.bad("wrong-result-routed", "future-of-cancelled-task", f"future {i}: {f._state}")
    else:
        if len(pending) != nb:
            out.bad("task-cancelled-spuriously", "stop-from-task", f"{case}: ended {ended}")
        for i, f in enumerate(futs):
            try:
                if f.result(timeout=5) != ("released", i):
                    out.bad("wrong-result-routed", "future", f"future {i}")
            except BaseException as e:  # noqa: BLE001
                out.bad("wrong-result-routed", "future", f"future {i}: {e!r}")
    for i, f in enumerate(futs):
        if not f.done():
            out.bad("future-not-done-at-exit", "stop-from-task", f"future {i}")


def run_fromworker(case, out, stats):
    ran_on = {}
    res = {}

    def sync_fn(i):
        ran_on[i] = threading.get_ident()
        return ("sync", i)

    async def async_fn(i):
        ran_on[i] = threading.get_ident()
        await asyncio.sleep(0)
        return ("async", i)

    async def starter(i, *, task_status):
        ran_on[i] = threading.get_ident()
        task_status.started(("s", i))
        await asyncio.sleep(0)
        return ("task", i)

    def blocking_library_code():
        with start_blocking_portal() as portal:
            res["portal_thread"] = portal.call(threading.get_ident)
            for i, op in enumerate(case["ops"]):
                if op == "call_sync":
                    res[i] = portal.call(sync_fn, i)
                elif op == "call_async":
                    res[i] = portal.call(async_fn, i)
                elif op == "soon_value":
                    res[i] = portal.start_task_soon(async_fn, i).result(10)
                else:
                    fut, val = portal.start_task(starter, i)
                    res[i] = (val, fut.result(10))

    async def outer():
        res["outer_thread"] = threading.get_ident()
        with anyio.fail_after(15):
            await anyio.to_thread.run_sync(blocking_library_code)

    if case["config"] == "U":
        import uvloop
        anyio.run(outer, backend_options={"loop_factory": uvloop.new_event_loop})
    else:
        anyio.run(outer)
    stats["caller_is_worker_thread_of_another_loop"] += 1
    want = {"call_sync": lambda i: ("sync", i), "call_async": lambda i: ("async", i), "soon_value": lambda i: ("async", i),
            "start_task": lambda i: (("s", i), ("task", i))}
    for i, op in enumerate(case["ops"]):
        if res.get(i) != want[op](i):
            out.bad("wrong-result-routed", "fromworker:" + op, f"{case}: {res.get(i)!r}")
        if ran_on.get(i) != res.get("portal_thread"):
            out.bad("ran-on-wrong-thread", "fromworker:" + op,
                    f"{case}: callable {i} ran in thread {ran_on.get(i)} (portal thread {res.get('portal_thread')}, "
                    f"thread of the caller's own loop {res.get('outer_thread')})")


def run_case(case) -> Outcome:
    out = Outcome()
    stats = dict.fromkeys(["calls_in_flight_at_stop", "future_cancelled_while_parked", "watchdog_rerun",
                           "steps_after_exit", "stop_from_task", "stop_called_twice",
                           "caller_is_worker_thread_of_another_loop"], 0)
    for attempt in range(3):
        trial = Outcome()
        box = {}

        def target():
            try:
                if case.get("kind") == "stopseq":
                    run_stopseq(case, trial, stats)
                elif case.get("kind") == "fromworker":
                    run_fromworker(case, trial, stats)
                else:
                    run_once(case, trial, stats)
                box["ok"] = True
            except Hang:
                box["hang"] = True
            except BaseException as e:  # noqa: BLE001
                box["exc"] = e

        th = threading.Thread(target=target, daemon=True)
        th.start()
        th.join(12 if case.get("race") else 20)
        if th.is_alive() or box.get("hang"):
            stats["watchdog_rerun"] += 1
            continue
        if "exc" in box:
            raise box["exc"]
        out.viols = trial.viols
        break
    else:
        out.bad("hang", "", f"{case}: no completion within 20 s on 3 runs")
    out.nontrivial = bool(stats["calls_in_flight_at_stop"] or stats["future_cancelled_while_parked"])
    out.labels = [k for k, v in stats.items() if v] + ["config-" + case["config"], "exit-" + case["exit"],
                                                       "free" if case["free"] else "turn-order"]
    return out
