"""Coverage-guided driver (atheris / libFuzzer) for a property's Hypothesis strategy.

Run as a subprocess by the runner (thorough tier, properties listed in TARGETS):

    python -m vf.atheris_job <PID> <tier> <seed> <job> <n_cases> <out.json>

libFuzzer mutates a byte buffer; ``explore.hypothesis.fuzz_one_input`` turns the buffer into the choices of the
property's own strategy, so every input is a well-formed case, the semantic oracle (prop.run_case) sits inside the
target and the coverage feedback comes from the instrumented anyio modules under test.  Violations are collected in
buckets exactly like in the Hypothesis jobs and written out as JSON cases (the replayable unit), never as raw bytes.
libFuzzer exits the process itself (no atexit), so the state is dumped from inside the target once n_cases inputs
have been evaluated, and the process then leaves with os._exit.
"""
from __future__ import annotations

import json
import os
import sys

# modules whose bytecode is instrumented for coverage feedback, per property
TARGETS = {
    "C16": ["anyio.streams.buffered", "anyio.streams.text"],
    "C19": ["anyio.itertools", "anyio.functools"],
}


def main(argv):
    pid, tier, seed, idx, n_cases, out_path = argv[1], argv[2], int(argv[3]), int(argv[4]), int(argv[5]), argv[6]
    os.environ["PYTHONHASHSEED"] = "0"
    import atheris

    include = TARGETS[pid]
    with atheris.instrument_imports(include=include, enable_loader_override=False):
        import anyio  # noqa: F401
        for m in include:
            __import__(m)
    from . import runner
    from .gen import _default

    prop = runner.load_prop(pid)
    st = runner._new_state()
    if hasattr(prop, "setup_worker"):
        prop.setup_worker()

    from hypothesis import HealthCheck, given, settings

    @settings(database=None, deadline=None, suppress_health_check=list(HealthCheck))
    @given(prop.strategy(tier))
    def explore(case):
        runner._collect(prop, case, st)
        st["labels"]["engine-atheris"] += 1

    fuzz_one = explore.hypothesis.fuzz_one_input
    calls = [0]

    def dump_and_exit():
        st["labels"] = dict(st["labels"])
        st["buckets"] = {f"{k[0]}\x00{k[1]}": v for k, v in st["buckets"].items()}
        st["hashes"] = sorted(st["hashes"])
        st["worker"] = idx
        st["atheris_inputs"] = calls[0]
        with open(out_path + ".tmp", "w") as f:
            json.dump(st, f, default=_default)
        os.replace(out_path + ".tmp", out_path)
        sys.stdout.flush()
        os._exit(0)

    def test_one_input(data):
        calls[0] += 1
        try:
            fuzz_one(data)
        except BaseException as exc:  # noqa: BLE001  (the oracle never raises; this is a harness problem)
            import traceback

            st["harness_errors"].append("".join(traceback.format_exception(exc))[-3000:])
        if st["evaluations"] >= n_cases or calls[0] >= 40 * n_cases or len(st["harness_errors"]) > 3:
            dump_and_exit()

    corpus = out_path + ".corpus"           # fresh and empty: the parent creates and removes it
    os.makedirs(corpus, exist_ok=True)
    args = [sys.argv[0], f"-seed={seed * 1000 + idx + 1}", "-max_len=2048", f"-runs={50 * n_cases + 1000}",
            "-print_final_stats=0", "-verbosity=%s" % os.environ.get("VF_ATHERIS_VERBOSE", "0"), corpus]
    atheris.Setup(args, test_one_input)
    try:
        atheris.Fuzz()
    finally:
        dump_and_exit()


if __name__ == "__main__":
    main(sys.argv)
