"""Generator helper: every random choice goes through Hypothesis' ``draw`` (shrinkable, replayable)."""
from __future__ import annotations

import hashlib
import json

from hypothesis import strategies as st


class G:
    """Thin wrapper over ``draw`` offering the few primitives the grammars need."""

    __slots__ = ("draw",)

    def __init__(self, draw):
        self.draw = draw

    def int(self, lo, hi):
        return self.draw(st.integers(lo, hi))

    def bool(self):
        return self.draw(st.booleans())

    def chance(self, num, den=100):
        """True with probability ~num/den (shrinks towards False)."""
        return self.draw(st.integers(0, den - 1)) >= den - num

    def choice(self, seq):
        return seq[self.draw(st.integers(0, len(seq) - 1))]

    def weighted(self, pairs):
        """pairs: [(weight, value), ...]; shrinks towards the first entry."""
        total = sum(w for w, _ in pairs)
        x = self.draw(st.integers(0, total - 1))
        for w, v in pairs:
            if x < w:
                return v
            x -= w
        raise AssertionError

    def sample(self, strategy):
        return self.draw(strategy)

    def bytes(self, lo, hi):
        return self.draw(st.binary(min_size=lo, max_size=hi))


def composite(fn):
    """``fn(g, *args)`` -> JSON-able case; returns a strategy factory."""

    @st.composite
    def strat(draw, *args, **kw):
        return fn(G(draw), *args, **kw)

    return strat


def canon(case) -> str:
    return json.dumps(case, sort_keys=True, separators=(",", ":"), default=_default)


def _default(o):
    if isinstance(o, (bytes, bytearray)):
        return {"__b": bytes(o).hex()}
    if isinstance(o, float):
        return repr(o)
    if isinstance(o, (set, frozenset)):
        return sorted(o)
    if isinstance(o, tuple):
        return list(o)
    raise TypeError(type(o))


def case_hash(case) -> int:
    return int.from_bytes(hashlib.blake2b(canon(case).encode(), digest_size=8).digest(), "big")


def dump_case(case) -> str:
    return json.dumps(case, sort_keys=True, indent=1, default=_default)


def load_case(text: str):
    def hook(d):
        if set(d) == {"__b"}:
            return bytes.fromhex(d["__b"])
        return d

    return json.loads(text, object_hook=hook)
