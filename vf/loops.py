"""Event loops owned by the harness (DESIGN.md section 2.1).

VLoop    -- SelectorEventLoop with a virtual clock, cycle counter, deadlock detection.
ULoop    -- uvloop.Loop counted with a self-rescheduling call_soon ticker ("TickLoop").
RLoop    -- real-time selector loop delaying call_soon_threadsafe by generated cycle counts.

run_on(config, main, ...) runs ``main`` with anyio.run on a fresh loop of the given
configuration: "S" stock VLoop, "E" VLoop + eager task factory, "U" uvloop ticker.
"""
from __future__ import annotations

import asyncio
import heapq
import logging
import threading

import anyio

logging.getLogger("asyncio").setLevel(logging.CRITICAL)


class Deadlock(Exception):
    """The loop has neither a ready callback nor a timer: the program would block forever."""


class BudgetExceeded(Exception):
    """The program ran for more loop cycles than any generated program can legitimately need."""


class VLoop(asyncio.SelectorEventLoop):
    def __init__(self) -> None:
        super().__init__()
        self._vtime = 0.0
        self.cycle = 0
        self.budget = 20000
        self.monitor = None
        self.on_idle = None      # hook called when the loop would otherwise block forever; True = made progress
        self.failed = None

    def time(self) -> float:
        return self._vtime

    def advance(self, dt: float) -> None:
        """Move the virtual clock forward (timers due by then fire on the next iterations)."""
        self._vtime += dt

    def _run_once(self) -> None:
        self.cycle += 1
        if self.cycle > self.budget:
            self.failed = "budget"
            raise BudgetExceeded(f"more than {self.budget} loop cycles")
        if self.monitor is not None:
            self.monitor(self)      # may cancel timers / queue callbacks: run it before judging idleness
        sched = self._scheduled
        while sched and sched[0]._cancelled:
            h = heapq.heappop(sched)
            h._scheduled = False
            if self._timer_cancelled_count:
                self._timer_cancelled_count -= 1
        while not self._ready and not self._stopping:
            if sched and sched[0]._when != float("inf"):      # a timer at +inf (sleep_forever) never fires
                when = sched[0]._when
                if when > self._vtime:
                    self._vtime = when
                break
            if self.on_idle is not None and self.on_idle(self):
                # the hook claims progress; look again (it must have queued a callback or a timer)
                while sched and sched[0]._cancelled:
                    h = heapq.heappop(sched)
                    h._scheduled = False
                continue
            self.failed = "deadlock"
            raise Deadlock("no ready callback and no timer")
        super()._run_once()

    # what anyio (or anyone) left behind; used by C05/C06
    def live_timers(self):
        return [h for h in self._scheduled if not h._cancelled]

    def ready_handles(self):
        return [h for h in self._ready if not h._cancelled]


def _vloop_eager() -> VLoop:
    loop = VLoop()
    loop.set_task_factory(asyncio.eager_task_factory)
    return loop


_ULoop = None


def _uloop_class():
    global _ULoop
    if _ULoop is None:
        import uvloop

        class ULoop(uvloop.Loop):
            """uvloop with a ticker: one tick per loop iteration (measured: one per sleep(0))."""

            def start_ticker(self, budget, monitor):
                self.cycle = 0
                self.budget = budget
                self.monitor = monitor
                self.failed = None
                self._ticking = True
                self.call_soon(self._tick)

            def _tick(self):
                if not self._ticking:
                    return
                self.cycle += 1
                if self.cycle > self.budget:
                    # stop the loop; asyncio.Runner then cancels what is left and runs the loop again, which must
                    # not be allowed to block for ever either (a host that is never woken): keep ticking and stop
                    # that teardown too once it has had its allowance
                    self.failed = "budget"
                    self.budget = self.cycle + 300
                    self.stop()
                    self.call_soon(self._tick)
                    return
                if self.monitor is not None and self.failed is None:
                    self.monitor(self)
                self.call_soon(self._tick)

        _ULoop = ULoop
    return _ULoop


CONFIGS = ("S", "E", "U")


def have_uvloop() -> bool:
    try:
        import uvloop  # noqa: F401
        return True
    except Exception:
        return False


def run_on(config: str, main, *, monitor=None, budget: int = 20000):
    """Run ``await main(loop)`` under anyio.run on a fresh harness-owned loop.

    Raises Deadlock / BudgetExceeded when the program cannot finish.  Always closes the loop.
    """
    made = []

    if config in ("S", "E"):
        def factory():
            loop = VLoop() if config == "S" else _vloop_eager()
            loop.budget = budget
            loop.monitor = monitor
            made.append(loop)
            return loop
    elif config == "U":
        cls = _uloop_class()

        def factory():
            loop = cls()
            loop.cycle = 0
            loop.failed = None
            made.append(loop)
            return loop
    else:
        raise ValueError(config)

    async def wrapper():
        loop = asyncio.get_running_loop()
        if config == "U":
            # uvloop deadlock = tick budget exceeded; budgets are smaller there
            loop.start_ticker(min(budget, 4000), monitor)
        try:
            return await main(loop)
        finally:
            if config == "U" and loop.failed is None:
                loop._ticking = False

    try:
        try:
            return anyio.run(wrapper, backend_options={"loop_factory": factory})
        except RuntimeError as exc:
            if config == "U" and made and made[0].failed == "budget":
                raise Deadlock("uvloop tick budget exceeded") from exc
            raise
    finally:
        for loop in made:
            try:
                if not loop.is_closed():
                    if config == "U":
                        loop._ticking = False
                    # drop whatever is still pending without running it
                    loop.close()
            except Exception:
                pass
        asyncio.set_event_loop(None) if False else None


def cycle() -> int:
    return asyncio.get_running_loop().cycle


class RLoop(asyncio.SelectorEventLoop):
    """Real-time loop; call_soon_threadsafe callbacks are delayed by generated cycle counts.

    Legal: thread-to-loop latency is unspecified.  Per-thread FIFO is preserved: a callback
    never overtakes an earlier one issued by the same thread.
    """

    def __init__(self) -> None:
        super().__init__()
        self.delays = []          # generated list of ints, consumed round-robin
        self._delay_i = 0
        self._rl_lock = threading.Lock()
        self._last_due = {}       # thread ident -> cycle at which its last callback is due
        self.cycle = 0
        self._loop_thread = None

    def _run_once(self):
        self.cycle += 1
        super()._run_once()

    def call_soon_threadsafe(self, callback, *args, context=None):
        if not self.delays or threading.get_ident() == self._thread_id:
            return super().call_soon_threadsafe(callback, *args, context=context)
        with self._rl_lock:
            d = self.delays[self._delay_i % len(self.delays)]
            self._delay_i += 1
        ident = threading.get_ident()

        def arm():
            due = max(self.cycle + d, self._last_due.get(ident, 0))
            self._last_due[ident] = due
            self._hop(due, callback, args, context)

        return super().call_soon_threadsafe(arm)

    def _hop(self, due, callback, args, context):
        if self.cycle >= due:
            if context is not None:
                context.run(callback, *args)
            else:
                callback(*args)
        else:
            self.call_soon(self._hop, due, callback, args, context)
