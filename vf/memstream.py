"""Shared harness for C12 (exactly-once / order / bound) and C13 (closing / error truthfulness) on memory object streams.

Case = {"config": S|E|U, "max": 0|1|2|inf, "ns": 1..3, "nr": 1..3, "keep_r": bool, "actors": [[step...]]}
step = ["send", d, h] | ["send_nw", d, h] | ["recv", d, h] | ["recv_nw", d, h]
     | ["cancel", d, target, native] | ["sendc"|"recvc", d, h, off, native]   op with a cancel of a blocked peer around it
     | ["close_s"|"close_r"|"clone_s"|"clone_r", d, h]                        (C13 only)
     | ["closec", d, h, off, which, native, cancel_first]    close send handle h with a cancel of a parked receiver around it
Handles are indexes into the lists of send / receive clones (modulo their current length).
Violation rules are prefixed with the property that owns them ("c12:" / "c13:").
"""
from __future__ import annotations

import asyncio
import math

import anyio
from anyio import (BrokenResourceError, ClosedResourceError, EndOfStream, WouldBlock,
                   create_memory_object_stream)

from .actors import run_sim
from .runner import Outcome

MAXES = [0, 1, 2, math.inf]


def gen_case(g, closing):
    n = g.int(2, 6)
    ns, nr = g.int(1, 3), g.int(1, 3)
    actors = []
    roles = [g.choice(["s", "r", "m"]) for _ in range(n)]
    if "s" not in roles and "m" not in roles:
        roles[0] = "s"
    if "r" not in roles and "m" not in roles:
        roles[-1] = "r"
    for a in range(n):
        script = []
        for _ in range(g.int(2, 7)):
            d = g.int(0, 3)
            role = roles[a]
            w = {"s": [(40, "send"), (10, "send_nw"), (4, "recv"), (2, "recv_nw"), (12, "cancel"), (16, "sendc"), (4, "recvc")],
                 "r": [(4, "send"), (2, "send_nw"), (40, "recv"), (10, "recv_nw"), (12, "cancel"), (4, "sendc"), (16, "recvc")],
                 "m": [(20, "send"), (8, "send_nw"), (20, "recv"), (8, "recv_nw"), (14, "cancel"), (10, "sendc"), (10, "recvc")]}[role]
            if closing:
                w = w + [(9, "close_s"), (9, "close_r"), (5, "clone_s"), (5, "clone_r"), (6, "closec")]
            k = g.weighted(w)
            if k == "cancel":
                script.append([k, d, g.int(0, n - 1), g.chance(15)])
            elif k in ("sendc", "recvc"):
                script.append([k, d, g.int(0, 2), g.choice([-1, 0, 0, 1]), g.chance(15)])
            elif k == "closec":
                # close a send handle with a cancel of a parked receiver one cycle before / in the same cycle (before
                # or after the close) / one cycle after
                script.append([k, d, g.int(0, 3), g.choice([-1, 0, 0, 1]), g.int(0, 2), g.chance(35), g.bool()])
            else:
                script.append([k, d, g.int(0, 3)])
        actors.append(script)
    return {"config": g.choice(["S", "S", "E", "U"]), "max": g.choice(MAXES), "ns": ns, "nr": nr,
            "keep_r": (not closing) or g.chance(50), "actors": actors, "nest": g.choice([0, 0, 1, 2]),
            "residue": g.chance(12)}


def run_stream_case(case):
    out = Outcome()
    stats = {"two_blocked": 0, "cancel_near_handover": 0, "last_close_with_blocked": 0, "double_close": 0,
             "clone_after_close": 0, "interrupted_send": 0, "cancelled_recv": 0, "native": 0,
             "native_cancel_after_handover": 0, "excluded_f8_window": 0, "closed_with_own_op_in_flight": 0,
             "close_with_cancel_of_parked_receiver": 0}
    maxbuf = case["max"]

    async def body(sim):
        sim.nest = case.get("nest", 0)
        sim.residue = bool(case.get("residue"))
        s0, r0 = create_memory_object_stream(maxbuf)
        sends = [s0] + [s0.clone() for _ in range(case["ns"] - 1)]
        recvs = [r0] + [r0.clone() for _ in range(case["nr"] - 1)]
        spare = r0.clone() if case["keep_r"] else None
        s_open = [True] * len(sends)
        r_open = [True] * len(recvs)
        busy_s, busy_r = {}, {}       # handle index -> number of operations in flight
        dirty_s, dirty_r = set(), set()   # handles closed while one of their own operations was in flight
        dirty_at = {}                     # (side, handle) -> cycle of that close
        seq = [0]
        itemseq = {}
        accepted, interrupted = [], []
        receipts = []                 # (item, aid, call_cycle, return_cycle, opseq)
        blocked_recv = {}             # aid -> [opseq, call_cycle, handle]
        blocked_send = {}             # aid -> [opseq, call_cycle, handle, item]
        suspects = []
        s_closed_at = [None]
        r_closed_at = [None]

        def n_s_open():
            return sum(s_open)

        def n_r_open():
            return sum(r_open) + (1 if spare is not None else 0)

        def check_stats(where):
            st = s0.statistics()
            if st.current_buffer_used > maxbuf:
                out.bad("c12:buffer-bound", "", f"{where}: buffer {st.current_buffer_used} > max {maxbuf}")
            if st.open_send_streams != n_s_open() or st.open_receive_streams != n_r_open():
                out.bad("c13:open-counts", "", f"{where}: statistics {st.open_send_streams}/{st.open_receive_streams} "
                                               f"model {n_s_open()}/{n_r_open()}")
            return st

        def live(d):
            return [a for a in sorted(d, key=lambda a: d[a][0]) if not sim.cancel_requested(a)]

        def do_cancel(target, native):
            if native and target in blocked_recv and target not in sim.native_req \
                    and sim.now() - last_handover[0] <= 1:
                # finding F8 (native cancel of a receiver that may just have been handed an item): excluded from
                # generated programs by construction and counted; only the curated replay exercises it
                if not case.get("allow_f8"):
                    stats["excluded_f8_window"] += 1
                    return
                f8_hits[0] += 1
                stats["native_cancel_after_handover"] += 1
            if target in blocked_recv:
                stats["cancelled_recv"] += 1
            if target in blocked_send:
                stats["interrupted_send"] += 1
            if native:
                if target in sim.native_req:
                    return
                if sim.native_cancel(target):
                    stats["native"] += 1
            else:
                sim.cancel(target)

        def new_item(aid):
            itemseq[aid] = itemseq.get(aid, 0) + 1
            return (aid, itemseq[aid])

        def classify_send_exc(exc, h, where, open_at_call, r_open_at_call):
            if isinstance(exc, ClosedResourceError):
                if open_at_call:
                    out.bad("c13:closed-error-on-open-handle", "send", f"{where}")
            elif isinstance(exc, BrokenResourceError):
                if not open_at_call:
                    out.bad("c13:wrong-error-on-closed-handle", "send", f"{where}: BrokenResourceError")
                if n_r_open() > 0:
                    out.bad("c13:broken-but-receivers-open", "", f"{where}: {n_r_open()} receive handles open")
            return

        async def op_send(aid, hi, nowait):
            h = sends[hi % len(sends)]
            hidx = hi % len(sends)
            open_at_call = s_open[hidx]
            item = new_item(aid)
            seq[0] += 1
            me = [seq[0], sim.now(), hidx, item]
            st0 = check_stats("before send")
            if nowait:
                try:
                    h.send_nowait(item)
                except WouldBlock:
                    if open_at_call and st0.current_buffer_used < maxbuf and n_r_open() > 0:
                        out.bad("c12:send-nowait-wouldblock-with-room", "", f"buffer {st0.current_buffer_used}/{maxbuf}")
                    return
                except (ClosedResourceError, BrokenResourceError) as e:
                    classify_send_exc(e, h, "send_nowait", open_at_call, None)
                    if isinstance(e, BrokenResourceError) and not open_at_call:
                        pass
                    return
                if not open_at_call:
                    out.bad("c13:closed-handle-accepted", "send_nowait", "")
                elif n_r_open() == 0:
                    out.bad("c13:send-accepted-without-receivers", "send_nowait", "")
                accepted.append(item)
                note_handover(st0)
                check_stats("after send_nowait")
                return
            busy_s[hidx] = busy_s.get(hidx, 0) + 1
            blocked_send[aid] = me
            if len(blocked_send) + len(blocked_recv) >= 2:
                stats["two_blocked"] += 1
            ok = False
            try:
                with sim.op(aid):
                    try:
                        await h.send(item)
                        ok = True
                    finally:
                        blocked_send.pop(aid, None)
                        busy_s[hidx] -= 1
            except asyncio.CancelledError:
                asyncio.current_task().uncancel()
                sim.native_req.discard(aid)
                interrupted.append(item)
                return
            except (ClosedResourceError, BrokenResourceError) as e:
                if hidx not in dirty_s:
                    classify_send_exc(e, h, "send", open_at_call, None)
                interrupted.append(item)
                return
            if not ok:
                interrupted.append(item)     # AnyIO cancellation absorbed by the op scope
                return
            if not open_at_call and hidx not in dirty_s:
                out.bad("c13:closed-handle-accepted", "send", "")
            accepted.append(item)
            for other in live(blocked_send):
                if blocked_send[other][0] < me[0] and blocked_send[other][1] < me[1]:
                    suspects.append(("send", aid, other, blocked_send[other][0], sim.now()))
            note_handover()
            st1 = s0.statistics()
            if sim.now() == me[1] + 1:
                # the send did not park: its send_nowait ran in this very step; a receiver registered by then
                # (called >= 2 cycles ago for certain, 1 cycle ago possibly) was handed the item directly
                parked = [a for a in live(blocked_recv) if blocked_recv[a][1] < sim.now() and a not in handed]
                if parked and (blocked_recv[parked[0]][1] <= sim.now() - 2 or st1.tasks_waiting_receive == 0):
                    handed[parked[0]] = sim.now()
            check_stats("after send")

        last_handover = [-10]
        handed = {}          # receiver aid -> cycle at which an item was handed to it while parked
        f8_hits = [0]        # natively cancelled receivers that had just been handed an item (finding F8)

        def note_handover(st0=None):
            last_handover[0] = sim.now()
            if st0 is not None:
                st1 = s0.statistics()
                if st1.tasks_waiting_receive < st0.tasks_waiting_receive and st1.current_buffer_used == st0.current_buffer_used:
                    lr = [a for a in live(blocked_recv) if a not in handed]
                    if lr:
                        handed[lr[0]] = sim.now()

        async def op_recv(aid, hi, nowait):
            hidx = hi % len(recvs)
            h = recvs[hidx]
            open_at_call = r_open[hidx]
            seq[0] += 1
            me = [seq[0], sim.now(), hidx]
            st0 = check_stats("before receive")
            if nowait:
                try:
                    item = h.receive_nowait()
                except WouldBlock:
                    if open_at_call and (st0.current_buffer_used > 0 or st0.tasks_waiting_send > 0):
                        out.bad("c12:receive-nowait-wouldblock-with-items", "", f"{st0}")
                    if open_at_call and n_s_open() == 0:
                        out.bad("c13:no-endofstream", "receive_nowait", "send side closed, nothing left, got WouldBlock")
                    return
                except EndOfStream:
                    eos_check("receive_nowait", open_at_call)
                    return
                except ClosedResourceError:
                    if open_at_call:
                        out.bad("c13:closed-error-on-open-handle", "receive_nowait", "")
                    return
                if not open_at_call:
                    out.bad("c13:closed-handle-accepted", "receive_nowait", "")
                receipts.append((item, aid, me[1], sim.now(), me[0]))
                note_handover()
                check_stats("after receive_nowait")
                return
            busy_r[hidx] = busy_r.get(hidx, 0) + 1
            blocked_recv[aid] = me
            if len(blocked_send) + len(blocked_recv) >= 2:
                stats["two_blocked"] += 1
            got = None
            try:
                with sim.op(aid):
                    try:
                        got = (await h.receive(),)
                    finally:
                        blocked_recv.pop(aid, None)
                        handed.pop(aid, None)
                        busy_r[hidx] -= 1
            except asyncio.CancelledError:
                asyncio.current_task().uncancel()
                sim.native_req.discard(aid)
                return
            except EndOfStream:
                eos_check("receive", open_at_call or hidx in dirty_r)
                return
            except ClosedResourceError:
                # the handle was open when receive() was invoked: ClosedResourceError is only understandable if the
                # handle was closed during the call's initial checkpoint (within one cycle of the call); a receiver
                # that had already parked keeps waiting and ends with an item or EndOfStream
                if open_at_call and not (hidx in dirty_r and dirty_at.get(("r", hidx), 10 ** 9) <= me[1] + 1):
                    out.bad("c13:closed-error-on-open-handle", "receive",
                            f"receive() invoked at cycle {me[1]} on an open handle (closed by another task at cycle "
                            f"{dirty_at.get(('r', hidx))}) raised ClosedResourceError at cycle {sim.now()}")
                return
            if got is None:
                return
            if not open_at_call and hidx not in dirty_r:
                out.bad("c13:closed-handle-accepted", "receive", "")
            receipts.append((got[0], aid, me[1], sim.now(), me[0]))
            for other in live(blocked_recv):
                if blocked_recv[other][0] < me[0] and blocked_recv[other][1] < me[1]:
                    suspects.append(("recv", aid, other, blocked_recv[other][0], sim.now()))
            note_handover()
            check_stats("after receive")

        def eos_check(where, open_at_call):
            if not open_at_call:
                out.bad("c13:endofstream-on-closed-handle", where, "expected ClosedResourceError")
            if n_s_open() > 0:
                out.bad("c13:endofstream-with-open-senders", where, f"{n_s_open()} send handles still open")
            st = s0.statistics()
            if st.current_buffer_used or st.tasks_waiting_send:
                out.bad("c13:endofstream-with-items-left", where, f"{st}")

        def do_close(side, hi):
            lst, flags, busy = (sends, s_open, busy_s) if side == "s" else (recvs, r_open, busy_r)
            idx = hi % len(lst)
            if busy.get(idx):
                # closing a handle while one of its own operations is in flight: that operation's own outcome is
                # not judged (ok / ClosedResourceError both accepted), everything else still is
                (dirty_s if side == "s" else dirty_r).add(idx)
                dirty_at.setdefault((side, idx), sim.now())
                stats["closed_with_own_op_in_flight"] += 1
            was_open = flags[idx]
            if not was_open:
                stats["double_close"] += 1
            lst[idx].close()
            flags[idx] = False
            if was_open:
                if side == "s" and n_s_open() == 0:
                    s_closed_at[0] = sim.now()
                    if live(blocked_recv):
                        stats["last_close_with_blocked"] += 1
                if side == "r" and n_r_open() == 0:
                    r_closed_at[0] = sim.now()
                    if live(blocked_send):
                        stats["last_close_with_blocked"] += 1
            check_stats("after close")

        def do_clone(side, hi):
            lst, flags = (sends, s_open) if side == "s" else (recvs, r_open)
            idx = hi % len(lst)
            if len(lst) >= 6:
                return
            try:
                c = lst[idx].clone()
            except ClosedResourceError:
                if flags[idx]:
                    out.bad("c13:closed-error-on-open-handle", "clone", "")
                return
            if not flags[idx]:
                out.bad("c13:closed-handle-accepted", "clone", "")
                c.close()
                return
            if not all(flags):
                stats["clone_after_close"] += 1
            lst.append(c)
            flags.append(True)
            check_stats("after clone")

        def pick_peer(kind):
            pool = live(blocked_recv) if kind == "sendc" else live(blocked_send)
            return pool[0] if pool else None

        async def do_step(aid, step):
            await sim.delay(step[1])
            sim.progress += 1
            k = step[0]
            if k == "send":
                await op_send(aid, step[2], False)
            elif k == "send_nw":
                await op_send(aid, step[2], True)
            elif k == "recv":
                await op_recv(aid, step[2], False)
            elif k == "recv_nw":
                await op_recv(aid, step[2], True)
            elif k == "cancel":
                if step[2] in blocked_recv or step[2] in blocked_send:
                    if abs(sim.now() - last_handover[0]) <= 1:
                        stats["cancel_near_handover"] += 1
                    do_cancel(step[2], step[3])
            elif k in ("sendc", "recvc"):
                target = pick_peer(k)
                off, native = step[3], step[4]
                if target is not None:
                    stats["cancel_near_handover"] += 1
                nowait_op = op_send if k == "sendc" else op_recv
                if off == -1:
                    if target is not None:
                        do_cancel(target, native)
                    await asyncio.sleep(0)
                    await nowait_op(aid, step[2], True)
                elif off == 0:
                    await nowait_op(aid, step[2], True)
                    if target is not None:
                        do_cancel(target, native)
                else:
                    await nowait_op(aid, step[2], True)
                    await asyncio.sleep(0)
                    if target is not None:
                        do_cancel(target, native)
            elif k == "closec":
                pool = live(blocked_recv)
                target = pool[min(step[4], len(pool) - 1)] if pool else None
                off, native = step[3], step[5]
                if off == -1:
                    if target is not None:
                        do_cancel(target, native)
                    await asyncio.sleep(0)
                    do_close("s", step[2])
                elif off == 0:
                    if step[6] and target is not None:
                        do_cancel(target, native)
                    do_close("s", step[2])
                    if not step[6] and target is not None:
                        do_cancel(target, native)
                else:
                    do_close("s", step[2])
                    await asyncio.sleep(0)
                    pool = live(blocked_recv)
                    target = pool[min(step[4], len(pool) - 1)] if pool else None
                    if target is not None:
                        do_cancel(target, native)
                if target is not None:
                    stats["close_with_cancel_of_parked_receiver"] += 1
            elif k in ("close_s", "close_r"):
                do_close(k[-1], step[2])
            elif k in ("clone_s", "clone_r"):
                do_clone(k[-1], step[2])

        async def actor(aid):
            for step in case["actors"][aid]:
                if sim.draining:
                    break
                try:
                    await do_step(aid, step)
                except asyncio.CancelledError:
                    asyncio.current_task().uncancel()
                    sim.native_req.discard(aid)

        stuck = {"recv": 0, "send": 0, "closed_r": 0, "closed_s": 0}
        span = {"buf": 0, "room": 0}

        def monitor(lp):
            st = s0.statistics()
            if st.current_buffer_used > maxbuf:
                out.bad("c12:buffer-bound", "cycle", f"cycle {lp.cycle}: buffer {st.current_buffer_used} > max {maxbuf}")
            lr = [a for a in live(blocked_recv) if blocked_recv[a][1] < lp.cycle - 1]
            ls = [a for a in live(blocked_send) if blocked_send[a][1] < lp.cycle - 1]
            # lost wake-up: the SAME receiver and the SAME sender (or a continuously non-empty buffer) have been
            # blocked side by side for four cycles. (A population of waiters that merely turns over every cycle -
            # each receiver is served a cycle after some sender parks - is ordinary traffic on a small buffer.)
            if st.current_buffer_used > 0:
                span["buf"] += 1
            else:
                span["buf"] = 0
            if st.current_buffer_used < maxbuf:
                span["room"] += 1
            else:
                span["room"] = 0
            old_r = [a for a in lr if blocked_recv[a][1] <= lp.cycle - 5]
            old_s = [a for a in ls if blocked_send[a][1] <= lp.cycle - 5]
            if old_r and (old_s or span["buf"] >= 4) and not stuck.get("recv_reported"):
                stuck["recv_reported"] = 1
                out.bad("c12:lost-wakeup", "receiver", f"cycle {lp.cycle}: receivers {old_r} blocked, buffer "
                                                       f"{st.current_buffer_used}, blocked senders {old_s}")
            if old_s and span["room"] >= 4 and n_r_open() > 0 and not stuck.get("send_reported"):
                stuck["send_reported"] = 1
                out.bad("c12:lost-wakeup", "sender", f"cycle {lp.cycle}: senders {old_s} blocked with room in the buffer")
            if lr and n_s_open() == 0 and st.current_buffer_used == 0 and not blocked_send:
                stuck["closed_s"] += 1
                if stuck["closed_s"] == 4:
                    out.bad("c13:blocked-on-closed-peer", "receiver", f"cycle {lp.cycle}: receivers {lr} blocked, send side closed")
            else:
                stuck["closed_s"] = 0
            if ls and n_r_open() == 0:
                stuck["closed_r"] += 1
                if stuck["closed_r"] == 4:
                    out.bad("c13:blocked-on-closed-peer", "sender", f"cycle {lp.cycle}: senders {ls} blocked, receive side closed")
            else:
                stuck["closed_r"] = 0
            for s in list(suspects):
                kind, later, earlier, eseq, cyc = s
                d = blocked_send if kind == "send" else blocked_recv
                w = d.get(earlier)
                if w is None or w[0] != eseq or sim.cancel_requested(earlier):
                    suspects.remove(s)
                elif lp.cycle >= cyc + 3:
                    suspects.remove(s)
                    out.bad("c12:fifo-overtaken", kind, f"actor {later} was served at cycle {cyc} while earlier live "
                                                        f"{kind} waiter {earlier} is still blocked at {lp.cycle}")

        sim.on_monitor = monitor
        res = await sim.run(len(case["actors"]), actor)
        sim.on_monitor = None
        for r in res:
            if isinstance(r, BaseException) and not isinstance(r, asyncio.CancelledError):
                raise r
        # drain what is left
        drained = []
        drain_h = spare if spare is not None else next((recvs[i] for i in range(len(recvs)) if r_open[i]), None)
        endc = sim.now()
        if drain_h is not None:
            while True:
                try:
                    drained.append(drain_h.receive_nowait())
                except (WouldBlock, EndOfStream):
                    break
        for i, it in enumerate(drained):
            receipts.append((it, "drain", endc + 1 + i, endc + 1 + i, 10 ** 9 + i))
        got_items = [r[0] for r in receipts]
        if len(set(got_items)) != len(got_items):
            dup = sorted(set(i for i in got_items if got_items.count(i) > 1))
            out.bad("c12:duplicate-delivery", "", f"items {dup}")
        invented = [i for i in got_items if i not in accepted and i not in interrupted]
        if invented:
            out.bad("c12:invented-item", "", f"{invented}")
        if drain_h is not None:      # the receive side was never fully closed: nothing may be dropped
            lost = [i for i in accepted if i not in got_items]
            if lost:
                sig = "F8:native-cancel-of-receiver-just-handed-an-item" if len(lost) <= f8_hits[0] else ""
                out.bad("c12:lost-item", sig, f"accepted but never delivered nor left in the buffer: {lost}")
        # per-sender order, interval form
        by_sender = {}
        for r in receipts:
            by_sender.setdefault(r[0][0], []).append(r)
        for snd, rs in by_sender.items():
            rs.sort(key=lambda r: r[0][1])
            for i in range(len(rs)):
                for j in range(i + 1, len(rs)):
                    a, b = rs[i], rs[j]       # a sent before b
                    if b[3] < a[2] or (a[1] == b[1] and b[4] < a[4]):
                        out.bad("c12:order", "", f"item {b[0]} was received (cycle {b[3]}) before the receive that "
                                                 f"got {a[0]} was even called (cycle {a[2]})")
        if sim.gave_up:
            out.bad("hang", "actors-stuck", "")
        for h in sends + recvs + ([spare] if spare is not None else []):
            h.close()

    _res, err, _sim = run_sim(case["config"], body)
    if err is not None:
        out.bad("hang", err[0], err[1])
    out.labels = [k for k, v in stats.items() if v] + ["config-" + case["config"], "max-%s" % case["max"]]
    out.history = stats
    return out, stats
