"""check <ID> <quick|thorough> [--replay FILE]"""
import sys


def main(argv):
    if len(argv) < 2:
        print(__doc__)
        return 2
    pid, tier = argv[0], argv[1]
    if tier not in ("quick", "thorough"):
        print(__doc__)
        return 2
    replay = None
    if "--replay" in argv:
        replay = argv[argv.index("--replay") + 1]
    from .runner import run_check

    try:
        return run_check(pid, tier, replay)
    except Exception:  # harness failure, never a violation
        import traceback

        print("HARNESS-ERROR:")
        traceback.print_exc()
        return 2


if __name__ == "__main__":
    sys.exit(main(sys.argv[1:]))
