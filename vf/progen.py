"""Hypothesis generator for interp programs, parameterised by a per-property profile (weights and switches)."""
from __future__ import annotations

DEFAULT = {
    "yield": 22, "sleep": 8, "wait": 6, "set": 3, "forever": 3, "scope": 16, "cancel": 12, "shield": 3,
    "group": 10, "spawn": 10, "start": 0, "catch": 9, "raise": 3, "return": 1, "ntimeout": 0, "ntg": 0,
    "setdl": 0, "max_depth": 4, "max_stmts": 60, "ext": 2, "native_ext": 0, "wrap": 0, "configs": ["S", "S", "E", "U"],
    "deadlines": True, "patterns": {}, "precancel": 0,
}


def profile(**kw):
    p = dict(DEFAULT)
    p.update(kw)
    return p


def gen_program(g, prof):
    st = {"n": 0, "names": [], "groups": [], "children": [], "budget": prof["max_stmts"], "frac": 0}
    config = g.choice(prof["configs"])

    def new(prefix):
        st["n"] += 1
        return f"{prefix}{st['n']}"

    def start_spec():
        spec = {"pre": g.int(0, 3), "act": g.weighted([(60, "started"), (15, "raise"), (10, "return"), (15, "block")]),
                "v": g.int(0, 9)}
        if spec["act"] == "started":
            spec["post"] = g.int(0, 3)
            spec["end"] = g.weighted([(50, "return"), (30, "raise"), (20, "block")])
            if g.chance(25):
                spec["second"] = True
                spec["gap"] = g.int(0, 2)
            if g.chance(20):
                spec["shield_script"] = True
        spec["oncancel"] = g.weighted([(50, "reraise"), (20, "swallow"), (30, "boom")])
        spec["cleanup"] = g.int(0, 3)
        spec["shielded"] = g.chance(70)
        return spec

    def block(depth, own_scopes, in_child, enc=()):
        out = []
        for _ in range(g.int(1, 4)):
            if st["budget"] <= 0:
                break
            st["budget"] -= 1
            w = [(prof["yield"], "yield"), (prof["sleep"], "sleep"), (prof["wait"], "wait"), (prof["set"], "set"),
                 (prof["forever"], "forever"),
                 (prof["cancel"] if st["names"] else 0, "cancel"),
                 (prof["shield"] if own_scopes else 0, "shield"),
                 (prof["setdl"] if own_scopes or st["names"] else 0, "setdl"),
                 (prof["raise"], "raise"), (prof["return"] if in_child else 0, "return")]
            if depth < prof["max_depth"]:
                w += [(prof["scope"], "scope"), (prof["group"], "group"), (prof["catch"], "catch"),
                      (prof["spawn"] if st["groups"] else 0, "spawn"),
                      (prof["start"] if enc else 0, "start"),
                      (prof["ntimeout"], "ntimeout"), (prof["ntg"], "ntg")]
            k = g.weighted([x for x in w if x[0] > 0])
            if k == "yield":
                out.append(["yield", g.int(1, 3)])
            elif k == "sleep":
                out.append(["sleep", g.choice([0, 1, 2, 5])])
            elif k == "wait":
                out.append(["wait", g.choice(["e0", "e1"])])
            elif k == "set":
                out.append(["set", g.choice(["e0", "e1"])])
            elif k == "forever":
                out.append(["forever"])
            elif k == "cancel":
                out.append(["cancel", g.choice(st["names"])])
            elif k == "shield":
                out.append(["shield", g.choice(own_scopes), g.bool()])
            elif k == "setdl":
                st["frac"] += 1
                pool = own_scopes if own_scopes and g.chance(80) else st["names"]
                out.append(["setdl", g.choice(pool), g.choice([0.5, 2.5, 6.5, 20.5, -1.5, float("inf")])
                            + (2.0 ** -(st["frac"] + 3))])
            elif k == "raise":
                out.append(["raise", st["n"] * 10 + g.int(0, 9)])
                break
            elif k == "return":
                out.append(["return", g.int(0, 9)])
                break
            elif k == "scope":
                name = new("s")
                st["names"].append(name)
                rel = None
                if prof["deadlines"] and g.chance(25):
                    st["frac"] += 1
                    rel = g.choice([0.5, 1.5, 3.5, 7.5, -1.5]) + 2.0 ** -(st["frac"] + 3)
                stmt = ["scope", name, g.chance(28), rel, block(depth + 1, own_scopes + [name], in_child, enc)]
                if prof.get("precancel") and g.chance(prof["precancel"]):
                    stmt.append(True)
                out.append(stmt)
            elif k == "group":
                name = new("g")
                st["names"].append(name)
                st["groups"].append(name)
                out.append(["group", name, block(depth + 1, own_scopes + [name], in_child, tuple(enc) + (name,))])
            elif k == "spawn":
                cname = new("c")
                st["names"].append(cname)
                st["children"].append(cname)
                gname = g.choice(st["groups"][-3:]) if g.chance(80) else g.choice(st["groups"])
                # the child lives inside the scope of the group it is spawned into (and of that group's parents:
                # approximated by the groups enclosing this statement when it is one of them)
                cenc = tuple(enc[:enc.index(gname) + 1]) if gname in enc else (gname,)
                out.append(["spawn", gname, cname, g.choice(["soon", "create"]), block(depth + 1, [], True, cenc)])
            elif k == "start":
                cname = new("c")
                st["names"].append(cname)
                st["children"].append(cname)
                # the caller of start() is inside the scope of the group it starts the task in (callers outside
                # it would be handed the group's own cancellation, which is outside the stated domain)
                gname = g.choice(list(enc)[-2:])
                out.append(["start", gname, cname, start_spec()])
            elif k == "catch":
                what = g.weighted([(75, "cancel"), (25, "any")])
                after = g.weighted([(45, "reraise"), (25, "swallow"), (20, "boom"), (prof["wrap"], "wrap")])
                out.append(["catch", what, block(depth + 1, own_scopes, in_child, enc),
                            block(depth + 1, own_scopes, in_child, enc) if g.chance(70) else [["yield", g.int(0, 2)]],
                            g.chance(40), after])
            elif k == "ntimeout":
                st["frac"] += 1
                out.append(["ntimeout", g.choice([1, 2, 4, 8]) + 0.25 + 2.0 ** -(st["frac"] + 3),
                            block(depth + 1, own_scopes, in_child, enc)])
            elif k == "ntg":
                st["frac"] += 1
                d = None if g.chance(30) else g.choice([1, 3, 6]) + 0.125 + 2.0 ** -(st["frac"] + 3)
                out.append(["ntg", d, block(depth + 1, own_scopes, in_child, enc)])
        return out

    main = block(0, [], False)
    ext = []
    # targeted shapes the uniform grammar reaches only rarely (weights per profile); the random program stays around
    pats = prof.get("patterns") or {}
    which_pat = [None]
    if pats and g.chance(pats.get("_chance", 25)):
        which = g.weighted([(w, k) for k, w in sorted(pats.items()) if k != "_chance"])
        which_pat[0] = which
        if which == "late_spawn":
            # a task outside group GI spawns into it k cycles after GI's last child signalled and returned
            go, gi_, cs, cl, cc = new("g"), new("g"), new("c"), new("c"), new("c")
            st["names"] += [go, gi_, cs, cl, cc]
            st["groups"] += [go, gi_]
            st["children"] += [cs, cl, cc]
            inner_rest = [["yield", g.int(0, 2)]] if g.bool() else []
            main = [["group", go, [
                ["spawn", go, cs, "soon", [["wait", "e1"], ["yield", g.int(0, 3)],
                                           ["spawn", gi_, cl, g.choice(["soon", "create"]),
                                            [["yield", g.int(1, 3)], ["yield", 1]]]]],
                ["group", gi_, [["spawn", gi_, cc, "soon", [["yield", g.int(0, 3)], ["set", "e1"]]]] + inner_rest],
            ] + main]]
        elif which == "double_cancel":
            # two nested unshielded scopes cancelled in the same cycle while the task is runnable in a checkpoint;
            # the task handles the first cancellation and then waits again inside both scopes
            a, b = new("s"), new("s")
            st["names"] += [a, b]
            c = g.int(1, 4)
            order = [a, b] if g.bool() else [b, a]
            ext += [[c, "cancel", order[0]], [c, "cancel", order[1]]]
            main = [["scope", a, False, None, [["scope", b, False, None, [
                ["catch", "cancel", [["yield", g.int(1, 4)]], [["yield", g.int(0, 1)]], g.chance(30), "swallow"],
                g.choice([["forever"], ["wait", "e0"], ["yield", 2], ["sleep", 5]]),
                ["yield", 1]]]]]] + main
        elif which == "cleanup_failure_under_outer_cancel":
            # an enclosing scope (or an outer group that is shutting down) is cancelled; a child raises from its
            # cleanup while being cancelled by it; the host sits behind a shield and then leaves the body quietly
            a, gg, c1, sh = new("s"), new("g"), new("c"), new("s")
            st["names"] += [a, gg, c1, sh]
            st["groups"].append(gg)
            st["children"].append(c1)
            child = [["catch", "cancel", [["forever"]], [["yield", g.int(0, 2)]], g.bool(), "boom"]]
            body = [["spawn", gg, c1, g.choice(["soon", "create"]), child],
                    ["scope", sh, True, None, [["yield", g.int(3, 8)]]]]
            if g.bool():
                body.append(["yield", g.int(1, 2)])
            inner = [["group", gg, body]]
            if g.chance(40):
                # outer group whose other child fails instead of a plain cancelled scope
                go, c2 = new("g"), new("c")
                st["names"] += [go, c2]
                st["groups"].append(go)
                st["children"].append(c2)
                main = [["group", go, [["spawn", go, c2, "soon", [["yield", g.int(1, 3)], ["raise", 77]]]] + inner]] + main
            else:
                ext += [[g.int(2, 5), "cancel", a]]
                main = [["scope", a, False, None, inner]] + main
        elif which == "shielded_group_failure":
            # the group's own scope is shielded, an enclosing scope is cancelled, a child fails while others are parked
            a, gg, c1, c2 = new("s"), new("g"), new("c"), new("c")
            st["names"] += [a, gg, c1, c2]
            st["groups"].append(gg)
            st["children"] += [c1, c2]
            ext += [[g.int(1, 3), "cancel", a]]
            main = [["scope", a, False, None, [["group", gg, [
                ["shield", gg, True],
                ["spawn", gg, c1, "soon", [["yield", g.int(3, 7)], ["raise", 78]]],
                ["spawn", gg, c2, "soon", [g.choice([["forever"], ["wait", "e0"]])]],
                g.choice([["forever"], ["yield", 12], ["wait", "e1"]])]]]]] + main
        elif which == "group_shielded_after_failure":
            # an enclosing scope is cancelled; a child of the group fails on account of that; only then is the group's
            # own scope shielded (F16): the group must stay cancelled because of its failed child
            a, gg, c1 = new("s"), new("g"), new("c")
            st["names"] += [a, gg, c1]
            st["groups"].append(gg)
            st["children"].append(c1)
            ext += [[g.int(1, 3), "cancel", a]]
            handler = [["yield", g.int(1, 3)], ["shield", gg, True], ["yield", g.int(1, 3)]]
            main = [["scope", a, False, None, [["group", gg, [
                ["spawn", gg, c1, "soon", [["catch", "cancel", [["forever"]], [["yield", g.int(0, 1)], ["raise", 76]],
                                            True, "reraise"]]],
                ["catch", "cancel", [g.choice([["forever"], ["wait", "e0"]])], handler, True,
                 g.choice(["reraise", "swallow"])],
                ["yield", g.int(1, 3)]]]]]] + main
        elif which == "native_in_cancelled_scope":
            # a child sits behind a shield inside a scope that gets cancelled; then it is cancelled natively:
            # the native CancelledError must travel through the cancelled scope untouched
            a, b, gg, c1 = new("s"), new("s"), new("g"), new("c")
            st["names"] += [a, b, gg, c1]
            st["groups"].append(gg)
            st["children"].append(c1)
            c = g.int(1, 4)
            ext += [[c, "cancel", a], [c + g.int(1, 4), "native", c1]]
            main = [["group", gg, [["spawn", gg, c1, "soon", [["scope", a, g.chance(30), None, [
                ["scope", b, True, None, [["forever"]]], ["yield", 1]]]]], ["yield", g.int(1, 3)]] + main]]
        elif which == "multi_delivery":
            # the host swallows k deliveries of its own scope's cancellation before leaving it
            a = new("s")
            st["names"].append(a)
            k = g.int(1, 5)
            inner = [["cancel", a]] + [["catch", "cancel", [["yield", g.int(1, 2)]], [["yield", 0]], False, "swallow"]
                                       for _ in range(k)]
            if g.bool():
                b = new("s")
                st["names"].append(b)
                inner = [["scope", b, False, None, inner]]
            main = [["scope", a, g.chance(20), None, inner], ["yield", 1]] + main
        elif which == "self_cancel_host_shielded":
            # the only child cancels its own group while the host sits behind a shield in the body: nobody but the
            # caller of cancel() is there to be interrupted
            gg, c1, sh = new("g"), new("c"), new("s")
            st["names"] += [gg, c1, sh]
            st["groups"].append(gg)
            st["children"].append(c1)
            target = gg
            body = [["spawn", gg, c1, g.choice(["soon", "create"]),
                     [["yield", g.int(1, 3)], ["cancel", target],
                      g.choice([["forever"], ["wait", "e0"], ["yield", 3], ["sleep", 5]]), ["yield", 1]]],
                    ["scope", sh, True, None, [g.choice([["yield", g.int(9, 14)], ["wait", "e1"]])]]]
            main = [["group", gg, body]] + main
        elif which == "unshield_from_nested":
            # P (cancelled) > S (shield) > X...: the host drops S's shield while it sits in a scope nested inside S,
            # so S itself has no direct task at that moment
            pn, sn = new("s"), new("s")
            st["names"] += [pn, sn]
            tail = [["shield", sn, False], g.choice([["forever"], ["wait", "e0"], ["yield", 2], ["sleep", 5]]), ["yield", 1]]
            if g.bool():
                inner = [["cancel", pn], ["yield", g.int(0, 2)]] + tail
            else:
                ext += [[g.int(1, 4), "cancel", pn]]
                inner = [["yield", g.int(2, 5)]] + tail
            for _ in range(g.int(1, 3)):
                xn = new("s")
                st["names"].append(xn)
                inner = [["scope", xn, False, None, inner]]
            main = [["scope", pn, False, None, [["scope", sn, True, None, inner], ["yield", 1]]]] + main
        elif which == "late_shield_after_observation":
            # P > M > S: P is cancelled, S's effective cancellation is observed (a cancelled sibling scope exits
            # without a checkpoint / has_pending_cancellation), then M becomes a shield, then a scope inside S is
            # cancelled on its own and must absorb
            pn, mn, sn, cn = new("s"), new("s"), new("s"), new("s")
            st["names"] += [pn, mn, sn, cn]
            obs = g.choice(["sibling", "probe", "none", "caught"])
            inner = [["cancel", pn]]
            if obs == "sibling":
                xn = new("s")
                st["names"].append(xn)
                inner.append(["scope", xn, False, None, [["cancel", xn]]])
            elif obs == "probe":
                inner.append(["probe"])
            elif obs == "caught":
                inner.append(["catch", "cancel", [["yield", 1]], [["yield", 0]], False, "swallow"])
            inner.append(["shield", g.choice([mn, mn, sn]), True])
            inner.append(["yield", g.int(0, 2)])
            inner.append(["scope", cn, False, None, [["cancel", cn], ["yield", g.int(1, 2)]]])
            inner.append(["yield", 1])
            tree = [["scope", sn, False, None, inner]]
            for _ in range(g.int(0, 2)):
                en = new("s")
                st["names"].append(en)
                tree = [["scope", en, False, None, tree]]
            main = [["scope", pn, False, None, [["scope", mn, False, None, tree], ["yield", 1]]]] + main
        elif which == "native_at_group_join":
            # a child hosting an inner group is cancelled natively while parked in the inner group's __aexit__
            # (its last child does shielded cleanup), optionally right after the inner group's own cancellation
            go, gi_, ch, cc = new("g"), new("g"), new("c"), new("c")
            st["names"] += [go, gi_, ch, cc]
            st["groups"] += [go, gi_]
            st["children"] += [ch, cc]
            c = g.int(3, 6)
            if g.chance(70):
                ext += [[c, "cancel", gi_]]
            ext += [[c + g.int(0, 3), "native", ch]]
            slow = [["catch", "cancel", [["forever"]], [["yield", g.int(4, 8)]], True, "reraise"]]
            main = [["group", go, [
                ["spawn", go, ch, "soon", [["group", gi_, [["spawn", gi_, cc, "soon", slow], ["yield", g.int(0, 2)]]],
                                           ["yield", 1]]],
                ["yield", g.int(1, 3)]] + main]]
        elif which == "native_cancel_at_last_child_done":
            # the host of GI is cancelled natively in the very cycles in which GI's last child reports in, and an
            # outsider spawns one more child into GI at that moment
            go, gi_, cs, cl, cc, ch = new("g"), new("g"), new("c"), new("c"), new("c"), new("c")
            st["names"] += [go, gi_, cs, cl, cc, ch]
            st["groups"] += [go, gi_]
            st["children"] += [cs, cl, cc, ch]
            late = g.choice([[["yield", g.int(1, 3)]],
                             [["catch", "cancel", [["yield", 2]], [["yield", 2]], True, "reraise"]]])
            acts = [["native", ch], ["spawn", gi_, cl, g.choice(["soon", "create"]), late]]
            if g.bool():
                acts.reverse()
            if g.chance(35):
                # GI has no child at all when its body ends: the outsider acts during the block's exit checkpoint
                inner = [["yield", g.int(0, 2)], ["set", "e1"]]
            else:
                inner = [["spawn", gi_, cc, "soon", [["yield", g.int(0, 3)], ["set", "e1"]]]]
            main = [["group", go, [
                ["spawn", go, cs, "soon", [["wait", "e1"], ["yield", g.int(0, 2)]] + acts],
                ["spawn", go, ch, "soon", [["group", gi_, inner], ["yield", g.int(0, 1)]]],
            ] + main]]
        elif which == "outsider_start":
            # a task outside group GI calls GI.start(); GI has no ordinary child; its host leaves the body while the
            # started task has not yet called started()
            go, gi_, co, cx = new("g"), new("g"), new("c"), new("c")
            st["names"] += [go, gi_, co, cx]
            st["groups"] += [go, gi_]
            st["children"] += [co, cx]
            spec = {"pre": g.int(2, 6), "act": "started", "v": g.int(0, 9), "post": g.int(0, 3),
                    "end": g.choice(["return", "return", "raise"]), "oncancel": "reraise", "cleanup": g.int(0, 2),
                    "shielded": True}
            main = [["group", go, [
                ["group", gi_, [["spawn", go, co, "soon", [["yield", g.int(0, 1)], ["start", gi_, cx, spec]]],
                                ["yield", g.int(1, 3)]]],
                ["yield", 1]] + main]]
        elif which == "native_cancel_of_start_caller":
            # the caller of start() is cancelled natively before started(); while start() waits for the child's
            # (slow, shielded) cleanup, a scope around the caller is cancelled as well
            go, a, cc, cx = new("g"), new("s"), new("c"), new("c")
            st["names"] += [go, a, cc, cx]
            st["groups"].append(go)
            st["children"] += [cc, cx]
            spec = {"pre": g.int(4, 7), "act": g.choice(["started", "block"]), "v": g.int(0, 9), "post": g.int(0, 2),
                    "end": "return", "oncancel": g.choice(["reraise", "reraise", "boom"]), "cleanup": g.int(3, 6),
                    "shielded": True}
            c = g.int(3, 5)
            ext += [[c, "native", cc], [c + g.int(1, 3), "cancel", g.choice([a, a, go])]]
            main = [["group", go, [["spawn", go, cc, "soon", [["scope", a, False, None, [["start", go, cx, spec]]],
                                                              ["yield", 1]]],
                                   g.choice([["yield", g.int(1, 3)], ["wait", "e1"]])]]] + main
        elif which == "outsider_start_enclosing_cancel":
            # an outsider calls GI.start(); a scope enclosing both the caller and GI is cancelled before started();
            # the started task is GI's last member and GI's host already waits in __aexit__
            a, go, gi_, co, cx = new("s"), new("g"), new("g"), new("c"), new("c")
            st["names"] += [a, go, gi_, co, cx]
            st["groups"] += [go, gi_]
            st["children"] += [co, cx]
            spec = {"pre": g.int(4, 8), "act": g.choice(["started", "block"]), "v": g.int(0, 9), "post": g.int(0, 2),
                    "end": "return", "oncancel": "reraise", "cleanup": g.int(0, 3), "shielded": True}
            ext += [[g.int(3, 6), "cancel", g.choice([a, a, go])]]
            main = [["scope", a, False, None, [["group", go, [
                ["group", gi_, [["spawn", go, co, "soon", [["yield", g.int(0, 1)], ["start", gi_, cx, spec]]],
                                ["yield", g.int(0, 2)]]],
                ["yield", 1]]]]]] + main
        elif which == "shielded_start_caller_group_failure":
            # the group is cancelled (a sibling fails / its scope is cancelled) while a start() is in progress whose
            # caller sits behind a shield (or outside the group); the starting child raises from its cleanup
            gg, c1, c2, cx, sh = new("g"), new("c"), new("c"), new("c"), new("s")
            st["names"] += [gg, c1, c2, cx, sh]
            st["groups"].append(gg)
            st["children"] += [c1, c2, cx]
            spec = {"pre": g.int(5, 9), "act": g.choice(["started", "block"]), "v": g.int(0, 9), "post": 1,
                    "end": "return", "oncancel": g.choice(["boom", "reraise"]), "cleanup": g.int(0, 2), "shielded": g.bool()}
            trigger = g.choice(["sibling", "sibling", "cancel"])
            first = ["spawn", gg, c1, "soon", [["yield", g.int(2, 4)]] + ([["raise", 77]] if trigger == "sibling"
                                                                          else [["cancel", gg]])]
            caller = [["scope", sh, True, None, [["start", gg, cx, spec]]], ["yield", 1]]
            if g.chance(65):
                body = [first, ["spawn", gg, c2, "soon", caller], g.choice([["yield", g.int(1, 3)], ["wait", "e1"]])]
            else:
                body = [first] + caller
            main = [["group", gg, body]] + main
        elif which == "native_cancel_at_final_checkpoint":
            # the only child of G fails; G's host (itself a child, so that it can be cancelled natively) is cancelled
            # natively in the cycles in which G's __aexit__ runs its final checkpoint
            go, gg, ch, c1 = new("g"), new("g"), new("c"), new("c")
            st["names"] += [go, gg, ch, c1]
            st["groups"] += [go, gg]
            st["children"] += [ch, c1]
            k = g.int(1, 3)
            ext += [[k + g.int(3, 8), "native", ch]]
            main = [["group", go, [
                ["spawn", go, ch, "soon", [["group", gg, [["spawn", gg, c1, "soon", [["yield", k], ["raise", 79]]],
                                                          g.choice([["forever"], ["sleep", 5], ["wait", "e0"]])]],
                                           ["yield", 1]]],
                g.choice([["yield", g.int(1, 3)], ["wait", "e1"]])]]] + main
        elif which == "native_cancel_after_prestart_failure":
            # the started task fails before started(); the caller of start() is cancelled natively in the cycles in
            # which that exception is on its way to it
            gg, cc, cx = new("g"), new("c"), new("c")
            st["names"] += [gg, cc, cx]
            st["groups"].append(gg)
            st["children"] += [cc, cx]
            k = g.int(0, 3)
            spec = {"pre": k, "act": g.choice(["raise", "raise", "return"]), "v": g.int(0, 9), "oncancel": "reraise",
                    "cleanup": 0, "shielded": False}
            ext += [[k + g.int(3, 7), "native", cc]]
            main = [["group", gg, [["spawn", gg, cc, "soon", [["start", gg, cx, spec], ["yield", 1]]],
                                   g.choice([["yield", g.int(1, 2)], ["wait", "e1"]])]]] + main
        elif which == "sibling_double_cancel":
            a, b, gg, c1, c2 = new("s"), new("s"), new("g"), new("c"), new("c")
            st["names"] += [a, b, gg, c1, c2]
            st["groups"].append(gg)
            st["children"] += [c1, c2]
            order = [a, b] if g.bool() else [b, a]
            main = [["group", gg, [
                ["spawn", gg, c1, "soon", [["scope", a, False, None, [["scope", b, False, None, [
                    ["set", "e1"],
                    ["catch", "cancel", [["yield", g.int(1, 3)]], [["yield", g.int(0, 1)]], False, "swallow"],
                    g.choice([["forever"], ["wait", "e0"], ["yield", 2]])]]]]]],
                ["spawn", gg, c2, "soon", [["wait", "e1"], ["yield", g.int(0, 1)],
                                           ["cancel", order[0]], ["cancel", order[1]]]],
            ]]] + main
    for _ in range(g.int(0, prof["ext"])):
        if not st["names"]:
            break
        kind = g.weighted([(70, "cancel"), (15, "set"), (prof["native_ext"] if st["children"] else 0, "native")])
        cyc = g.int(1, 30)
        if ext and g.chance(30):
            cyc = ext[-1][0]          # several external actions in one loop cycle
        if kind == "cancel":
            ext.append([cyc, "cancel", g.choice(st["names"])])
        elif kind == "set":
            ext.append([cyc, "set", g.choice(["e0", "e1"])])
        else:
            ext.append([cyc, "native", g.choice(st["children"])])
    ext.sort(key=lambda e: e[0])
    prog = {"config": config, "main": main, "ext": ext}
    if which_pat[0]:
        prog["pat"] = which_pat[0]        # (label only: which targeted shape was prepended, counted in the evidence)
    return prog
