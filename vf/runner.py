"""Runner: tiers, sharding, collect-then-shrink, replay, known findings, evidence (DESIGN.md 2.4/2.5)."""
from __future__ import annotations

import collections
import importlib
import json
import multiprocessing as mp
import os
import sys
import time
import traceback
from dataclasses import dataclass, field

VERIF = os.path.dirname(os.path.dirname(os.path.abspath(__file__)))
REPO_SRC = os.path.realpath(os.environ.get("VF_ANYIO_SRC", "/repo/src"))


@dataclass
class Viol:
    rule: str          # oracle rule id, stable
    sig: str           # structural signature of the failing history (bucket key with rule)
    detail: str = ""   # free text for humans


@dataclass
class Outcome:
    viols: list = field(default_factory=list)
    nontrivial: bool = False
    labels: list = field(default_factory=list)
    discard: bool = False
    history: object = None    # small observed history, used for evidence samples

    def bad(self, rule, sig="", detail=""):
        self.viols.append(Viol(rule, sig, str(detail)[:600]))


class HarnessError(Exception):
    pass


def anyio_frames(exc) -> bool:
    """True if the traceback of ``exc`` passes through the anyio sources under test."""
    tb = exc.__traceback__
    while tb is not None:
        fn = os.path.realpath(tb.tb_frame.f_code.co_filename)
        if fn.startswith(REPO_SRC + os.sep):
            return True
        tb = tb.tb_next
    return False


def load_prop(pid: str):
    return importlib.import_module(f"vf.props.{pid.lower()}")


def load_known():
    path = os.path.join(VERIF, "known_findings.json")
    with open(path) as f:
        data = json.load(f)
    return data["findings"]


def known_match(known, pid, v: Viol):
    for e in known:
        if e["property"] != pid and pid not in e.get("also", []):
            continue
        if e["status"] != "known":
            continue
        if e["rule"] == v.rule and e["sig"] == v.sig:
            return e
    return None


# ---------------------------------------------------------------------------------------
# worker side


class CaseTimeout(BaseException):
    pass


def _alarm(signum, frame):
    raise CaseTimeout()


def _collect(prop, case, st):
    from .gen import case_hash, dump_case
    import signal

    if sum(b["count"] for k, b in st["buckets"].items() if k[0].endswith("hang")) >= 2:
        st["skipped_after_hang"] = st.get("skipped_after_hang", 0) + 1
        return None          # hangs are expensive to confirm: two confirmed ones per job are enough
    limit = int(getattr(prop, "CASE_TIMEOUT_S", 120))
    try:
        signal.signal(signal.SIGALRM, _alarm)
        signal.alarm(limit)
    except ValueError:
        limit = 0
    try:
        try:
            out = prop.run_case(case)
        finally:
            if limit:
                signal.alarm(0)
    except CaseTimeout:
        st["harness_errors"].append("case exceeded %ds of wall clock (inconclusive, never a violation):\n%s"
                                    % (limit, dump_case(case)[:3000]))
        return None
    except BaseException as exc:  # noqa: BLE001
        if isinstance(exc, (KeyboardInterrupt, SystemExit)):
            raise
        if anyio_frames(exc) and not isinstance(exc, HarnessError):
            out = Outcome()
            out.bad("unexpected-exception", type(exc).__name__,
                    "".join(traceback.format_exception(exc))[-1500:])
        else:
            st["harness_errors"].append("".join(traceback.format_exception(exc))[-3000:])
            return None
    st["evaluations"] += 1
    if out.discard:
        st["discarded"] += 1
        return out
    for lab in out.labels:
        st["labels"][lab] += 1
    if out.nontrivial:
        h = case_hash(case)
        if h not in st["hashes"]:
            st["hashes"].add(h)
            if len(st["samples"]) < 2:
                st["samples"].append({"case": case, "observed": out.history})
    for v in out.viols:
        key = (v.rule, v.sig)
        b = st["buckets"].get(key)
        if b is None:
            b = st["buckets"][key] = {"count": 0, "case": case, "detail": v.detail, "size": None}
        b["count"] += 1
        sz = len(json.dumps(case, default=str))
        if b["size"] is None or sz < b["size"]:
            b["size"] = sz
            b["case"] = case
            b["detail"] = v.detail
    return out


def _new_state():
    return {"evaluations": 0, "discarded": 0, "labels": collections.Counter(), "hashes": set(),
            "samples": [], "buckets": {}, "harness_errors": [], "exhaustive_cases": 0}


def _worker(args):
    pid, tier, seed, idx, nworkers, n_examples, do_enum = args
    os.environ["PYTHONHASHSEED"] = "0"
    prop = load_prop(pid)
    st = _new_state()
    try:
        if hasattr(prop, "setup_worker"):
            prop.setup_worker()
        if do_enum and hasattr(prop, "enumerate_cases"):
            for i, case in enumerate(prop.enumerate_cases(tier)):
                if i % nworkers != idx:
                    continue
                _collect(prop, case, st)
                st["exhaustive_cases"] += 1
                if len(st["harness_errors"]) > 3:
                    break
        if n_examples > 0 and hasattr(prop, "strategy") and _atheris_job(pid, tier, idx, nworkers):
            _run_atheris(pid, tier, seed, idx, n_examples, st)
        elif n_examples > 0 and hasattr(prop, "strategy"):
            import hypothesis
            from hypothesis import HealthCheck, Phase, given, settings

            @hypothesis.seed(seed * 1000 + idx)
            @settings(max_examples=n_examples, database=None, deadline=None,
                      phases=[Phase.generate], report_multiple_bugs=False,
                      suppress_health_check=list(HealthCheck))
            @given(prop.strategy(tier))
            def explore(case):
                if len(st["harness_errors"]) > 3:
                    return
                _collect(prop, case, st)

            explore()
    except BaseException as exc:  # noqa: BLE001
        st["harness_errors"].append("".join(traceback.format_exception(exc))[-3000:])
    st["labels"] = dict(st["labels"])
    st["buckets"] = {f"{k[0]}\x00{k[1]}": v for k, v in st["buckets"].items()}
    st["worker"] = idx
    return st


ATHERIS_SHARE = (3, 16)    # 12 of the 64 jobs of a thorough run, for the properties in atheris_job.TARGETS


def _atheris_job(pid, tier, idx, njobs):
    from .atheris_job import TARGETS

    if pid not in TARGETS or os.environ.get("VF_ATHERIS", "1") == "0":
        return False
    if tier != "thorough" and os.environ.get("VF_ATHERIS") != "force":
        return False
    if idx >= max(1, njobs * ATHERIS_SHARE[0] // ATHERIS_SHARE[1]):
        return False
    try:
        sys.path.index(os.path.join(VERIF, ".deps"))
    except ValueError:
        pass
    import importlib.util

    return importlib.util.find_spec("atheris") is not None


def _run_atheris(pid, tier, seed, idx, n_examples, st):
    """Coverage-guided slice of the exploration: a subprocess (libFuzzer ends the process itself)."""
    import shutil
    import subprocess

    outdir = os.path.join(VERIF, "out", "atheris")
    os.makedirs(outdir, exist_ok=True)
    out_path = os.path.join(outdir, f"{pid}-{tier}-{seed}-{idx}-{os.getpid()}.json")
    try:
        proc = subprocess.run([sys.executable, "-m", "vf.atheris_job", pid, tier, str(seed), str(idx),
                               str(n_examples), out_path], cwd=VERIF, capture_output=True, text=True,
                              timeout=3600)
        if not os.path.exists(out_path):
            st["harness_errors"].append("atheris job produced no result (rc=%s):\n%s\n%s"
                                        % (proc.returncode, proc.stdout[-1500:], proc.stderr[-1500:]))
            return
        with open(out_path) as f:
            res = json.load(f)
    except subprocess.TimeoutExpired:
        st["harness_errors"].append("atheris job exceeded its wall-clock cap (inconclusive)")
        return
    finally:
        shutil.rmtree(out_path + ".corpus", ignore_errors=True)
        if os.path.exists(out_path):
            os.remove(out_path)
    st["evaluations"] += res["evaluations"]
    st["discarded"] += res["discarded"]
    st["labels"].update(res["labels"])
    st["labels"]["atheris-inputs"] += res.get("atheris_inputs", 0)
    st["hashes"] |= set(res["hashes"])
    st["samples"] += res["samples"][: max(0, 2 - len(st["samples"]))]
    st["harness_errors"] += res["harness_errors"]
    for ks, b in res["buckets"].items():
        k = tuple(ks.split("\x00"))
        if k not in st["buckets"]:
            st["buckets"][k] = b
        else:
            st["buckets"][k]["count"] += b["count"]


def _shrink_proc(pid, tier, hseed, n_examples, rule, sig, out_path, start_case):
    """Second, targeted Hypothesis run failing only on bucket (rule, sig); writes best-so-far."""
    import hypothesis
    from hypothesis import HealthCheck, Phase, given, settings
    from .gen import dump_case

    prop = load_prop(pid)
    if hasattr(prop, "setup_worker"):
        prop.setup_worker()
    best = [None]

    def record(case):
        s = dump_case(case)
        if best[0] is None or len(s) < best[0]:
            best[0] = len(s)
            tmp = out_path + ".tmp"
            with open(tmp, "w") as f:
                f.write(s)
            os.replace(tmp, out_path)

    record(start_case)

    @hypothesis.seed(hseed)
    @settings(max_examples=n_examples, database=None, deadline=None,
              phases=[Phase.generate, Phase.shrink], report_multiple_bugs=False,
              suppress_health_check=list(HealthCheck))
    @given(prop.strategy(tier))
    def hunt(case):
        try:
            out = prop.run_case(case)
        except BaseException as exc:  # noqa: BLE001
            if anyio_frames(exc) and rule == "unexpected-exception" and type(exc).__name__ == sig:
                record(case)
                raise AssertionError("bucket reproduced")
            return
        for v in out.viols:
            if v.rule == rule and v.sig == sig:
                record(case)
                raise AssertionError("bucket reproduced")

    try:
        hunt()
    except BaseException:  # noqa: BLE001
        pass


# ---------------------------------------------------------------------------------------
# main side


def replay_file(prop, path):
    from .gen import load_case

    with open(path) as f:
        case = load_case(f.read())
    st = _new_state()
    out = _collect(prop, case, st)
    return case, out, st


def run_check(pid: str, tier: str, replay: str | None = None) -> int:
    t0 = time.time()
    pid = pid.upper()
    seed = int(os.environ.get("VERIF_SEED", "1") or "1")
    scale = float(os.environ.get("VERIF_SCALE", "1") or "1")
    import anyio

    here = os.path.realpath(anyio.__file__)
    if not here.startswith(REPO_SRC + os.sep):
        print(f"HARNESS-ERROR: anyio imported from {here}, expected under {REPO_SRC}")
        return 2
    prop = load_prop(pid)
    known = load_known()

    if replay:
        case, out, st = replay_file(prop, replay)
        if st["harness_errors"]:
            print("HARNESS-ERROR:", st["harness_errors"][0])
            return 2
        rc = 0
        for v in out.viols:
            e = known_match(known, pid, v)
            if e:
                print(f"KNOWN-FINDING: property={pid} {e['id']} {e['description']}")
            else:
                print(f"VIOLATION property={pid} replay={replay}")
                print(f"  rule={v.rule} sig={v.sig}\n  {v.detail}")
                rc = 1
        if rc == 0:
            print(f"replay {replay}: property {pid} held")
        return rc

    nworkers = int(os.environ.get("VERIF_WORKERS", "0") or 0) or min(16, os.cpu_count() or 1)
    total = int(prop.budget(tier) * scale)
    njobs = nworkers * int(os.environ.get("VERIF_JOBS_PER_WORKER", getattr(prop, "JOBS_PER_WORKER", 4)))
    per = max(1, total // njobs) if total > 0 else 0
    merged = _new_state()
    merged["labels"] = collections.Counter()
    replays_run = 0

    # 1. replay tier: curated regression cases
    rdir = os.path.join(VERIF, "replays")
    rfiles = sorted(f for f in os.listdir(rdir) if f.startswith(pid + "-") and f.endswith(".json"))
    replay_buckets = {}
    for fn in rfiles:
        case, out, st = replay_file(prop, os.path.join(rdir, fn))
        replays_run += 1
        merged["harness_errors"] += st["harness_errors"]
        for k, b in st["buckets"].items():
            b["replay_path"] = os.path.join(rdir, fn)
            replay_buckets.setdefault(k, b)

    # 2. exploration
    ctx = mp.get_context("spawn")
    jobs = [(pid, tier, seed, i, njobs, per, True) for i in range(njobs)]
    with ctx.Pool(nworkers) as pool:
        results = list(pool.imap_unordered(_worker, jobs, chunksize=1))
    results.sort(key=lambda st: st["worker"])
    buckets = {}
    for k, b in replay_buckets.items():
        buckets[k] = dict(b, worker=None)
    for st in results:
        merged["evaluations"] += st["evaluations"]
        merged["discarded"] += st["discarded"]
        merged["exhaustive_cases"] += st["exhaustive_cases"]
        merged["labels"].update(st["labels"])
        merged["hashes"] |= st["hashes"]
        merged["samples"] += st["samples"]
        merged["harness_errors"] += st["harness_errors"]
        for ks, b in st["buckets"].items():
            k = tuple(ks.split("\x00"))
            if k in buckets:
                buckets[k]["count"] += b["count"]
                if buckets[k].get("size") is None or (b["size"] or 1e18) < buckets[k]["size"]:
                    cnt = buckets[k]["count"]
                    rp = buckets[k].get("replay_path")
                    buckets[k] = dict(b, worker=st["worker"], count=cnt)
                    if rp:
                        buckets[k]["replay_path"] = rp
            else:
                buckets[k] = dict(b, worker=st["worker"])

    if merged["harness_errors"]:
        print(f"HARNESS-ERROR: {len(merged['harness_errors'])} harness error(s); first:")
        print(merged["harness_errors"][0])
        return 2

    # 3. classify buckets
    new, known_hits = [], collections.Counter()
    for k, b in buckets.items():
        v = Viol(k[0], k[1], b["detail"])
        e = known_match(known, pid, v)
        if e:
            known_hits[e["id"]] += b["count"]
        else:
            new.append((k, b))
    for e in known:
        if e["id"] in known_hits:
            print(f"KNOWN-FINDING: property={pid} {e['id']} {e['description']} "
                  f"(hit by {known_hits[e["id"]]} case(s) in this run)")

    # 4. shrink new buckets and write replays
    from .gen import dump_case
    outdir = os.path.join(VERIF, "out", "replays")
    os.makedirs(outdir, exist_ok=True)
    cap = float(os.environ.get("VERIF_SHRINK_S", "45" if tier == "quick" else "300"))
    rc = 0
    for (rule, sig), b in sorted(new, key=lambda kb: -kb[1]["count"])[:6]:
        import hashlib
        tag = hashlib.blake2b(f"{rule}|{sig}".encode(), digest_size=4).hexdigest()
        path = os.path.join(outdir, f"{pid}-{tag}.json")
        with open(path, "w") as f:
            f.write(dump_case(b["case"]))
        if b.get("worker") is not None and hasattr(prop, "strategy") and cap > 0:
            p = ctx.Process(target=_shrink_proc,
                            args=(pid, tier, seed * 1000 + b["worker"], per, rule, sig, path, b["case"]))
            p.start()
            p.join(cap)
            if p.is_alive():
                p.terminate()
                p.join()
        print(f"VIOLATION property={pid} replay={path}")
        print(f"  rule={rule} sig={sig} cases={b['count']}\n  {b['detail']}")
        rc = 1
    if len(new) > 6:
        print(f"  ... and {len(new) - 6} further buckets")

    # 5. evidence
    write_evidence(prop, pid, tier, seed, merged, buckets, new, known_hits, replays_run,
                   time.time() - t0, nworkers)
    lab = ", ".join(f"{k}={v}" for k, v in sorted(merged["labels"].items()))
    print(f"{pid} {tier} seed={seed}: {merged['evaluations']} cases "
          f"({merged['exhaustive_cases']} enumerated, {merged['discarded']} discarded), "
          f"{len(merged['hashes'])} distinct non-trivial, {replays_run} replays, "
          f"{len(new)} new violation bucket(s), known hits {dict(known_hits)}, "
          f"{time.time() - t0:.1f}s")
    if lab:
        print("  classes:", lab)
    return rc


def write_evidence(prop, pid, tier, seed, merged, buckets, new, known_hits, replays_run, wall, nworkers):
    from .gen import _default

    ev = {
        "property_id": pid,
        "tier": tier,
        "seed": seed,
        "level": getattr(prop, "LEVEL", "exploration"),
        "coverage": {
            "evaluations": merged["evaluations"] + replays_run,
            "distinct_nontrivial": len(merged["hashes"]),
            "rule": prop.RULE,
            "samples": merged["samples"][:4],
            "classes": dict(sorted(merged["labels"].items())),
            "discarded": merged["discarded"],
            "enumerated_cases": merged["exhaustive_cases"],
            "exhaustive": bool(getattr(prop, "EXHAUSTIVE", False)) and merged["exhaustive_cases"] > 0,
            "exhaustive_scope": getattr(prop, "EXHAUSTIVE_NOTE", ""),
            "replayed_regressions": replays_run,
            "workers": nworkers,
            "known_finding_hits": dict(known_hits),
            "violation_buckets": [{"rule": k[0], "sig": k[1], "cases": b["count"]} for k, b in new],
            "generator": "Hypothesis %s, @seed(VERIF_SEED*1000+worker), database=None" % _hyp_version()
                         + ("; atheris/libFuzzer campaigns over the same strategy (fuzz_one_input), -seed=VERIF_SEED*1000+job+1, "
                            "%d cases from %d inputs" % (merged["labels"].get("engine-atheris", 0),
                                                         merged["labels"].get("atheris-inputs", 0))
                            if merged["labels"].get("engine-atheris") else ""),
        },
        "assumptions": list(getattr(prop, "ASSUMPTIONS", [])),
        "wall_s": round(wall, 2),
        "violations": len(new),
    }
    extra = getattr(prop, "evidence_extra", None)
    if extra:
        ev["coverage"].update(extra(merged))
    if os.environ.get("VF_NO_EVIDENCE"):
        return
    os.makedirs(os.path.join(VERIF, "evidence"), exist_ok=True)
    path = os.path.join(VERIF, "evidence", f"{pid}.json")
    with open(path + ".tmp", "w") as f:
        json.dump(ev, f, indent=1, default=_default)
    os.replace(path + ".tmp", path)


def _hyp_version():
    import hypothesis

    return hypothesis.__version__
