"""Property-based verification framework for agronholm/anyio (see /verif/DESIGN.md)."""
