#!/bin/sh
# setup_cmd: offline; verifies imports, installs hypothesis into /venv if missing, atheris into .deps (optional)
here="$(cd "$(dirname "$0")" && pwd)"
cd "$here" || exit 1
export PIP_NO_INDEX=1
/venv/bin/python -c "import hypothesis" 2>/dev/null || \
  /venv/bin/pip install --no-index --find-links /opt/veriftools/wheels hypothesis || exit 1
mkdir -p .deps out/replays evidence
/venv/bin/python -c "import sys; sys.path.insert(0,'.deps'); import atheris" 2>/dev/null || \
  /venv/bin/pip install --no-index --find-links /opt/veriftools/wheels --target .deps atheris >/dev/null 2>&1 || \
  echo "note: atheris not installable; C16 thorough runs without the coverage-guided driver"
PYTHONPATH=/repo/src:$here /venv/bin/python -c "import anyio, hypothesis, vf.runner, vf.loops; print('setup ok', anyio.__file__, hypothesis.__version__)" || exit 1
